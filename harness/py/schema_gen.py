"""Generated FIX schemas for C13/C14: a Hypothesis strategy for schema models, their XML rendering, the metadata the compiled
code must exhibit (computed from the model alone, independent of f8c), and the f8c + C++ compile pipeline."""
import os, subprocess, shutil, hashlib, json
from hypothesis import strategies as st
import fixref as fr

VERIF = os.path.dirname(os.path.dirname(os.path.dirname(os.path.abspath(__file__))))
REPO = os.environ.get('REPO', '/repo')

# XML type name -> FieldTrait::FieldType (every entry of f8c's type map except the two unimplemented TZ types)
TYPES = {
    'INT': fr.FT_int, 'LENGTH': fr.FT_Length, 'TAGNUM': fr.FT_TagNum, 'SEQNUM': fr.FT_SeqNum, 'DAYOFMONTH': fr.FT_DayOfMonth,
    'FLOAT': fr.FT_float, 'QTY': fr.FT_Qty, 'QUANTITY': fr.FT_Qty, 'PRICE': fr.FT_Price, 'PRICEOFFSET': fr.FT_PriceOffset, 'AMT': fr.FT_Amt, 'PERCENTAGE': fr.FT_Percentage,
    'CHAR': fr.FT_char, 'BOOLEAN': fr.FT_Boolean, 'STRING': fr.FT_string, 'MULTIPLEVALUECHAR': fr.FT_MultipleCharValue, 'MULTIPLECHARVALUE': fr.FT_MultipleCharValue,
    'MULTIPLESTRINGVALUE': fr.FT_MultipleStringValue, 'MULTIPLEVALUESTRING': fr.FT_MultipleStringValue, 'COUNTRY': fr.FT_Country, 'CURRENCY': fr.FT_Currency,
    'EXCHANGE': fr.FT_Exchange, 'MONTHYEAR': fr.FT_MonthYear, 'UTCTIMESTAMP': fr.FT_UTCTimestamp, 'UTCTIME': fr.FT_UTCTimeOnly, 'UTCTIMEONLY': fr.FT_UTCTimeOnly,
    'UTCDATE': fr.FT_UTCDateOnly, 'UTCDATEONLY': fr.FT_UTCDateOnly, 'LOCALMKTDATE': fr.FT_LocalMktDate, 'PATTERN': fr.FT_pattern, 'LANGUAGE': fr.FT_Language, 'TENOR': fr.FT_Tenor,
    'RESERVED100PLUS': fr.FT_Reserved100Plus, 'RESERVED1000PLUS': fr.FT_Reserved1000Plus, 'RESERVED4000PLUS': fr.FT_Reserved4000Plus,
}
PLAIN_TYPES = sorted(TYPES)
FT_NUMINGROUP, FT_DATA, FT_XMLDATA = fr.FT_NumInGroup, fr.FT_data, fr.FT_XMLData

STD_FIELDS = [  # (number, name, type) of the standard header / trailer every schema carries
    (8, 'BeginString', 'STRING'), (9, 'BodyLength', 'LENGTH'), (35, 'MsgType', 'STRING'), (49, 'SenderCompID', 'STRING'), (56, 'TargetCompID', 'STRING'),
    (34, 'MsgSeqNum', 'SEQNUM'), (43, 'PossDupFlag', 'BOOLEAN'), (52, 'SendingTime', 'UTCTIMESTAMP'), (122, 'OrigSendingTime', 'UTCTIMESTAMP'), (10, 'CheckSum', 'STRING')]
HEADER = [('BeginString', True), ('BodyLength', True), ('MsgType', True), ('SenderCompID', True), ('TargetCompID', True), ('MsgSeqNum', True), ('PossDupFlag', False),
          ('SendingTime', True), ('OrigSendingTime', False)]
TRAILER = [('CheckSum', True)]


def L(x):
    """the linear part of f8c's rothash: rothash(r, v) = L(r) ^ v ^ 0x80001801"""
    return (x ^ (x >> 2) ^ (x << 5) ^ (x << 13)) & 0xffffffff


def rothash(r, v):
    return (L(r) ^ v ^ 0x80001801) & 0xffffffff


def group_hash(tags, subhashes=()):
    """f8c group_hash over the member field numbers (ascending) and then the hashes of nested groups (ascending count tag)"""
    h = 0
    for t in sorted(tags):
        h = rothash(h, t)
    for s in subhashes:
        h = rothash(h, s)
    return h


# ------------------------------------------------------------------------------------------------
def ident(i, prefix):
    return '%s%s' % (prefix, ''.join(chr(65 + (i // 26 ** k) % 26) for k in range(2)))


def unique_descriptions(realm):
    """descriptions become identifiers in the generated code (FieldName_DESCRIPTION): keep them distinct per field after that mapping"""
    if realm:
        seen = set()
        for i, vd in enumerate(realm['vals']):
            key = vd[1].upper().replace(' ', '_')
            if key in seen:
                vd[1] = '%s %d' % (vd[1], i)
                key = vd[1].upper().replace(' ', '_')
            seen.add(key)
    return realm


@st.composite
def st_realm(draw, typ):
    return unique_descriptions(draw(st_realm_raw(typ)))


@st.composite
def st_realm_raw(draw, typ):
    ft = TYPES[typ]
    desc = st.text(alphabet='ABCDEFGHIJKLMNOPQRSTUVWXYZ_ ', min_size=1, max_size=12).map(lambda s: s.strip() or 'D')
    if fr.is_char(ft) and ft != fr.FT_Boolean:
        if draw(st.integers(0, 3)) == 0:
            lo, hi = sorted(draw(st.lists(st.sampled_from('abcdefghijklmnopqrstuvwxyz0123456789'), min_size=2, max_size=2, unique=True)))
            return {'kind': 'range', 'vals': [[lo, draw(desc)], [hi, draw(desc)]]}
        vals = draw(st.lists(st.sampled_from('ABCDEFGHIJKLMNOPQRSTUVWXYZ0123456789abcxyz'), min_size=1, max_size=8, unique=True))
        return {'kind': 'set', 'vals': [[v, draw(desc)] for v in vals]}
    if fr.is_int(ft):
        if draw(st.integers(0, 3)) == 0:
            lo, hi = sorted(draw(st.lists(st.integers(0, 10000), min_size=2, max_size=2, unique=True)))
            return {'kind': 'range', 'vals': [[str(lo), draw(desc)], [str(hi), draw(desc)]]}
        vals = draw(st.lists(st.integers(0, 100000), min_size=1, max_size=8, unique=True))
        return {'kind': 'set', 'vals': [[str(v), draw(desc)] for v in vals]}
    if fr.is_float(ft):
        vals = draw(st.lists(st.integers(0, 100000), min_size=1, max_size=5, unique=True))
        return {'kind': 'set', 'vals': [['%d.%02d' % (v // 100, v % 100), draw(desc)] for v in vals]}
    if ft in (fr.FT_string, fr.FT_Currency, fr.FT_Exchange, fr.FT_Country, fr.FT_MultipleStringValue):
        vals = draw(st.lists(st.text(alphabet='ABCDEFGHIJKLMNOPQRSTUVWXYZ0123456789', min_size=1, max_size=6), min_size=1, max_size=8, unique=True))
        return {'kind': 'set', 'vals': [[v, draw(desc)] for v in vals]}
    return None


@st.composite
def st_schema(draw, family='general', big=(150, 300)):
    """a schema model: fields, components, messages (JSON-serialisable)"""
    nf = draw(st.integers(8, 40)) if family == 'general' else draw(st.integers(8, 16))
    if family == 'general' and draw(st.integers(0, 19)) == 0:
        nf = draw(st.integers(*big))
    used_nums = {n for n, _, _ in STD_FIELDS}
    nums = draw(st.lists(st.one_of(st.integers(1, 20000), st.integers(1, 1200)).filter(lambda n: n not in used_nums and n + 1 not in used_nums), min_size=nf, max_size=nf, unique=True))
    fields = []          # {'num','name','type','realm'}
    plain = []           # names usable as ordinary message fields
    taken = set(used_nums)
    idx = 0
    for n in nums:
        if n in taken:
            continue
        typ = draw(st.sampled_from(PLAIN_TYPES))
        name = ident(idx, 'Fld'); idx += 1
        realm = draw(st_realm(typ)) if draw(st.integers(0, 2)) == 0 else None
        fields.append({'num': n, 'name': name, 'type': typ, 'realm': realm})
        taken.add(n)
        if typ != 'LENGTH':
            plain.append(name)
    # Length/data pairs (adjacent numbers)
    pairs = []
    for k in range(draw(st.integers(0, 2))):
        base = draw(st.integers(21000, 29000).filter(lambda n: n not in taken and n + 1 not in taken))
        ln, dn = ident(idx, 'Len'), ident(idx, 'Dat'); idx += 1
        fields.append({'num': base, 'name': ln, 'type': 'LENGTH', 'realm': None})
        fields.append({'num': base + 1, 'name': dn, 'type': draw(st.sampled_from(['DATA', 'XMLDATA'])), 'realm': None})
        taken.update([base, base + 1])
        pairs.append((ln, dn))
    # count fields
    ng = draw(st.integers(1, 5))
    counts = []
    for k in range(ng):
        n = draw(st.integers(30000, 39000).filter(lambda n: n not in taken))
        name = ident(k, 'NoGrp')
        fields.append({'num': n, 'name': name, 'type': 'NUMINGROUP', 'realm': None})
        taken.add(n)
        counts.append(name)
    pool = list(plain)

    def take(k):
        out = []
        for _ in range(k):
            if not pool:
                break
            out.append(pool.pop(draw(st.integers(0, len(pool) - 1))))
        return out

    def st_req():
        return draw(st.booleans())
    # group definitions (each count field gets one definition; may nest other groups defined earlier)
    gdefs = {}
    free_counts = list(counts)
    for depth_round in range(len(counts)):
        c = free_counts.pop(0)
        members = take(draw(st.integers(1, 4)))
        if not members:
            break
        els = [['field', members[0], True]] + [['field', m, st_req()] for m in members[1:]]
        nest = [g for g in gdefs if gdefs[g]['depth'] < 3 and not gdefs[g]['nested']]
        depth = 1
        if nest and draw(st.integers(0, 1)):
            g = draw(st.sampled_from(sorted(nest)))
            gdefs[g]['nested'] = True
            els.insert(draw(st.integers(1, len(els))), ['group', g, st_req(), gdefs[g]['els']])
            depth = gdefs[g]['depth'] + 1
        if pairs and draw(st.integers(0, 3)) == 0:
            p = pairs.pop()          # a Length field and its data field stay adjacent (that is what makes them a pair)
            els += [['field', p[0], False], ['field', p[1], False]]
        gdefs[c] = {'els': els, 'depth': depth, 'nested': False}
    top_groups = [g for g in gdefs if not gdefs[g]['nested']]
    # components (flat or nesting one other component / one top group)
    comps = {}
    for k in range(draw(st.integers(0, 3))):
        members = take(draw(st.integers(1, 3)))
        if not members:
            break
        els = [['field', m, st_req()] for m in members]
        if comps and draw(st.integers(0, 2)) == 0:
            inner = draw(st.sampled_from(sorted(comps)))
            if not comps[inner]['inner']:
                els.insert(draw(st.integers(0, len(els))), ['component', inner, st_req()])
        comps[ident(k, 'Comp')] = {'els': els, 'inner': any(e[0] == 'component' for e in els)}
    # messages
    nm = draw(st.integers(2, 8)) if family == 'general' else 3
    msgs = []
    shared = list(pool)
    for k in range(nm):
        own = draw(st.lists(st.sampled_from(shared), max_size=6, unique=True)) if shared else []
        els = [['field', m, st_req()] for m in own]
        usable_comps = [c for c in sorted(comps) if not any(cc for cc in comps if comps[cc]['inner'] and any(e[0] == 'component' and e[1] == c for e in comps[cc]['els']))]
        for c in draw(st.lists(st.sampled_from(usable_comps), max_size=2, unique=True)) if usable_comps else []:
            els.insert(draw(st.integers(0, len(els))), ['component', c, st_req()])
        for g in draw(st.lists(st.sampled_from(sorted(top_groups)), max_size=2, unique=True)) if top_groups else []:
            els.insert(draw(st.integers(0, len(els))), ['group', g, st_req(), gdefs[g]['els']])
        if pairs and draw(st.integers(0, 2)) == 0:
            p = pairs[0]
            els += [['field', p[0], False], ['field', p[1], False]]
        if not els:
            els = [['field', shared[0], False]] if shared else []
        mt = draw(st.sampled_from(['X', 'Y', 'Z', 'U', 'V'])) + chr(65 + k) if draw(st.booleans()) else chr(97 + k)
        msgs.append({'name': ident(k, 'Msg'), 'msgtype': mt, 'cat': draw(st.sampled_from(['app', 'app', 'admin'])), 'els': els})
    model = {'fields': fields, 'comps': {c: comps[c]['els'] for c in comps}, 'msgs': msgs, 'family': family}
    return dedupe_messages(model)


def flatten_names(els, comps, acc=None):
    acc = [] if acc is None else acc
    for e in els:
        if e[0] == 'field':
            acc.append(e[1])
        elif e[0] == 'component':
            flatten_names(comps[e[1]], comps, acc)
        else:
            acc.append(e[1])
            flatten_names(e[3], comps, acc)
    return acc


def dedupe_messages(model):
    """a field is used at most once in one message (any depth): drop elements that would repeat a field (keeps the schema valid)"""
    comps = model['comps']
    for m in model['msgs']:
        seen = set()
        kept = []
        for e in m['els']:
            names = flatten_names([e], comps)
            if any(n in seen for n in names) or len(set(names)) != len(names):
                continue
            seen.update(names)
            kept.append(e)
        if not kept:
            kept = [m['els'][0]] if m['els'] else []
        m['els'] = kept
    model['msgs'] = [m for m in model['msgs'] if m['els']]
    return model


# ------------------------------------------------------------------------------------------------
def to_xml(model):
    out = ["<?xml version='1.0' encoding='ISO-8859-1'?>", "<fix major='4' type='FIX' servicepack='0' minor='2'>", ' <header>']
    for n, r in HEADER:
        out.append("  <field name='%s' required='%s' />" % (n, 'Y' if r else 'N'))
    out.append(' </header>')
    out.append(' <messages>')

    def emit(els, ind):
        for e in els:
            if e[0] == 'field':
                out.append("%s<field name='%s' required='%s' />" % (' ' * ind, e[1], 'Y' if e[2] else 'N'))
            elif e[0] == 'component':
                out.append("%s<component name='%s' required='%s' />" % (' ' * ind, e[1], 'Y' if e[2] else 'N'))
            else:
                out.append("%s<group name='%s' required='%s'>" % (' ' * ind, e[1], 'Y' if e[2] else 'N'))
                emit(e[3], ind + 1)
                out.append('%s</group>' % (' ' * ind))
    for m in model['msgs']:
        out.append("  <message name='%s' msgcat='%s' msgtype='%s'>" % (m['name'], m['cat'], m['msgtype']))
        emit(m['els'], 3)
        out.append('  </message>')
    out.append(' </messages>')
    out.append(' <trailer>')
    for n, r in TRAILER:
        out.append("  <field name='%s' required='%s' />" % (n, 'Y' if r else 'N'))
    out.append(' </trailer>')
    if model['comps']:
        out.append(' <components>')
        for c in sorted(model['comps']):
            out.append("  <component name='%s'>" % c)
            emit(model['comps'][c], 3)
            out.append('  </component>')
        out.append(' </components>')
    else:
        out.append(' <components />')
    out.append(' <fields>')
    for n, name, typ in STD_FIELDS:
        if name == 'MsgType':
            out.append("  <field number='35' name='MsgType' type='STRING'>")
            for m in model['msgs']:
                out.append("   <value enum='%s' description='%s' />" % (m['msgtype'], m['name'].upper()))
            out.append('  </field>')
        else:
            out.append("  <field number='%d' name='%s' type='%s' />" % (n, name, typ))
    for f in model['fields']:
        if f['realm']:
            out.append("  <field number='%d' name='%s' type='%s'>" % (f['num'], f['name'], f['type']))
            for i, (v, d) in enumerate(f['realm']['vals']):
                rng = (" range='%s'" % ('lower' if i == 0 else 'upper')) if f['realm']['kind'] == 'range' else ''
                out.append("   <value enum='%s'%s description='%s' />" % (v, rng, d))
            out.append('  </field>')
        else:
            out.append("  <field number='%d' name='%s' type='%s' />" % (f['num'], f['name'], f['type']))
    out.append(' </fields>')
    out.append('</fix>')
    return '\n'.join(out) + '\n'


# ------------------------------------------------------------------------------------------------
def field_table(model):
    t = {name: (num, typ) for num, name, typ in STD_FIELDS}
    for f in model['fields']:
        t[f['name']] = (f['num'], f['type'])
    return t


def ft_of(typ):
    return {'NUMINGROUP': FT_NUMINGROUP, 'DATA': FT_DATA, 'XMLDATA': FT_XMLDATA}.get(typ) or TYPES[typ]


def expand(model, els, required=True, in_group=False):
    """expected traits of a message / group body, in schema order: [{'tag','ft','man','man_either','grp','sub'}].
    Semantics: a field is mandatory iff it says required=Y and every enclosing component (inside the same message or group body) is required.
    man_either: the group body lies inside an optional component - whether its required members stay mandatory is not fixed by the statement."""
    ftab = field_table(model)
    out = []

    def walk(els, req, either):
        for e in els:
            if e[0] == 'field':
                num, typ = ftab[e[1]]
                out.append({'tag': num, 'ft': ft_of(typ), 'man': bool(e[2] and req), 'man_either': either and e[2], 'grp': False, 'sub': None})
            elif e[0] == 'component':
                walk(model['comps'][e[1]], req and e[2], either)
            else:
                num, typ = ftab[e[1]]
                sub = expand_body(e[3], either or not req)
                out.append({'tag': num, 'ft': ft_of(typ), 'man': bool(e[2] and req), 'man_either': either and e[2], 'grp': True, 'sub': sub})

    def expand_body(els, either):
        save = list(out)
        del out[:]
        walk(els, True, either)
        res = list(out)
        del out[:]
        out.extend(save)
        return res
    walk(els, required, in_group)
    return out


# ------------------------------------------------------------------------------------------------
def compile_schema(model, workdir, tag, all_fields=False):
    """XML -> f8c -> shared object exporting verif_ctx(); returns (so_path or None, log)"""
    os.makedirs(workdir, exist_ok=True)
    d = os.path.join(workdir, tag)
    shutil.rmtree(d, ignore_errors=True)
    os.makedirs(d)
    with open(os.path.join(d, 's.xml'), 'w') as f:
        f.write(to_xml(model))
    f8c = os.path.join(VERIF, 'build', 'plain', 'f8c', 'f8c')
    r = subprocess.run([f8c, '-Vfp' if all_fields else '-Vp', 'g', '-n', 'GEN', 's.xml'], cwd=d, stdout=subprocess.PIPE, stderr=subprocess.STDOUT, text=True)
    log = r.stdout
    files = ['g_types.cpp', 'g_traits.cpp', 'g_classes.cpp']
    if r.returncode != 0 or 'error' in log.lower() or not all(os.path.exists(os.path.join(d, x)) for x in files):
        return None, 'f8c rc=%d\n%s' % (r.returncode, log[-3000:])
    with open(os.path.join(d, 'shim.cpp'), 'w') as f:
        f.write('#include <fix8/f8includes.hpp>\n#include "g_types.hpp"\n#include "g_router.hpp"\n#include "g_classes.hpp"\n'
                'extern "C" const FIX8::F8MetaCntx *verif_ctx() { return &FIX8::GEN::ctx(); }\n')
    cfg = os.path.join(VERIF, 'build', 'asan', 'cfg')
    flags = ['-DFIX8_VERIF', '-DHAVE_CONFIG_H', '-I' + cfg, '-I' + os.path.join(REPO, 'include'), '-I.', '-std=gnu++17', '-g0', '-O0',
             '-fsanitize=address,undefined', '-fno-sanitize=vptr', '-fno-sanitize-recover=undefined', '-D_GLIBCXX_SANITIZE_VECTOR', '-w', '-fPIC']
    # the fix8 headers are precompiled once per worker process and run (they are most of each unit's compile time); built from the working tree like everything else
    pch = os.path.join(workdir, 'f8_%d.pch' % os.getpid())
    if not os.path.exists(pch):
        r = subprocess.run(['clang++'] + flags + ['-x', 'c++-header', os.path.join(REPO, 'include', 'fix8', 'f8includes.hpp'), '-o', pch],
                           cwd=d, stdout=subprocess.PIPE, stderr=subprocess.STDOUT, text=True)
        if r.returncode != 0:
            return None, 'precompiling fix8/f8includes.hpp failed:\n' + r.stdout[-3000:]
    cmd = ['clang++'] + flags + ['-include-pch', pch, '-shared'] + files + ['shim.cpp', '-o', 'g.so']
    r = subprocess.run(cmd, cwd=d, stdout=subprocess.PIPE, stderr=subprocess.STDOUT, text=True)
    if r.returncode != 0:
        return None, 'generated code does not compile:\n' + r.stdout[-4000:]
    return os.path.join(d, 'g.so'), log


# ------------------------------------------------------------------------------------------------
# C14 family: one count field used with different definitions in different messages
@st.composite
def st_schema_c14(draw):
    used = {n for n, _, _ in STD_FIELDS}
    fields, names = [], {}

    def add(num, typ='STRING'):
        if num in names:
            return names[num]
        name = ident(len(fields), 'Fld')
        fields.append({'num': num, 'name': name, 'type': typ, 'realm': None})
        names[num] = name
        used.add(num)
        return name
    fresh = st.integers(1, 3000).filter(lambda n: n not in used)
    count_num = draw(st.integers(30000, 39000))
    count = 'NoGrpAA'
    fields.append({'num': count_num, 'name': count, 'type': 'NUMINGROUP', 'realm': None}); used.add(count_num)
    types = st.sampled_from(['STRING', 'INT', 'CHAR', 'PRICE', 'UTCTIMESTAMP', 'QTY', 'BOOLEAN'])
    mode = draw(st.sampled_from(['collide2', 'collide2', 'collide3', 'collide_near', 'collide_near', 'extra_field', 'nested_vs_flat', 'disjoint', 'nested_collide', 'nested_collide', 'nested_required', 'nested_order', 'top_required', 'top_order', 'top_variants3']))
    defs = []            # list of element lists (group bodies)
    collide = False
    if mode in ('nested_collide', 'nested_required', 'nested_order'):
        # identical outer groups whose NESTED group differs between the messages: in member fields that collide under the hash, in a mandatory flag, or in member order
        inner_num = draw(st.integers(39001, 39900))
        fields.append({'num': inner_num, 'name': 'NoGrpBA', 'type': 'NUMINGROUP', 'realm': None}); used.add(inner_num)
        outer = [['field', add(draw(fresh), draw(types)), True]] + [['field', add(draw(fresh), draw(types)), draw(st.booleans())] for _ in range(draw(st.integers(0, 2)))]
        if mode == 'nested_collide':
            for attempt in range(200):
                a = draw(st.integers(1, 4000)); a2 = a ^ draw(st.integers(1, 7))
                z = draw(st.integers(max(a, a2) + 1, 20000))
                z2 = z ^ L(rothash(0, a)) ^ L(rothash(0, a2))
                if a2 < 1 or {a, a2, z, z2} & used or len({a, a2, z, z2}) < 4 or z2 <= a2 or z2 >= 65536:
                    continue
                assert group_hash([a, z]) == group_hash([a2, z2])
                collide = True
                i1 = [['field', add(a, draw(types)), True], ['field', add(z, draw(types)), draw(st.booleans())]]
                i2 = [['field', add(a2, draw(types)), True], ['field', add(z2, draw(types)), draw(st.booleans())]]
                break
            else:
                mode = 'nested_required'
        if mode == 'nested_required':
            p, q = add(draw(fresh), draw(types)), add(draw(fresh), draw(types))
            i1 = [['field', p, True], ['field', q, True]]
            i2 = [['field', p, True], ['field', q, False]]
        elif mode == 'nested_order':
            p, q, r3 = add(draw(fresh), draw(types)), add(draw(fresh), draw(types)), add(draw(fresh), draw(types))
            i1 = [['field', p, True], ['field', q, True], ['field', r3, False]]
            i2 = [['field', q, True], ['field', p, True], ['field', r3, False]]
        req_inner = draw(st.booleans())
        at = draw(st.integers(1, len(outer)))
        for inner in (i1, i2):
            body = [list(e) for e in outer]
            body.insert(at, ['group', 'NoGrpBA', req_inner, inner])
            defs.append(body)
        if draw(st.booleans()):
            defs.append([list(e) if e[0] != 'group' else [e[0], e[1], e[2], [list(x) for x in e[3]]] for e in defs[draw(st.integers(0, 1))]])
        msgs = []
        for k, body in enumerate(defs):
            extra = [['field', add(draw(fresh), draw(types)), draw(st.booleans())] for _ in range(draw(st.integers(0, 2)))]
            els = extra + [['group', count, draw(st.booleans()), body]]
            msgs.append({'name': ident(k, 'Msg'), 'msgtype': 'G%s' % chr(65 + k), 'cat': 'app', 'els': els})
        return dedupe_messages({'fields': fields, 'comps': {}, 'msgs': msgs, 'family': 'c14', 'mode': mode, 'collide': collide})
    d3 = None
    if mode in ('collide2', 'collide3', 'collide_near'):
        k = 2 if mode == 'collide2' else 3 if mode == 'collide3' else draw(st.integers(2, 3))
        for attempt in range(200):
            # the two definitions differ in one low-numbered member by a few low bits (the linear hash then moves the last member by < 2^16) and in the last member
            A = sorted(draw(st.lists(st.integers(1, 4000), min_size=k - 1, max_size=k - 1, unique=True)))
            B = list(A)
            B[-1] = A[-1] ^ draw(st.integers(1, 7))
            if B[-1] < 1 or (k == 3 and B[-1] <= B[0]):
                continue
            lead = A + B
            if (set(A) | set(B)) & used:
                continue
            last = draw(st.integers(max(A + B) + 1, 20000))
            # hash of the ascending list [A..., last] == hash of [B..., last2]  <=>  last2 = last ^ L(hash_prefix(A) ^ hash_prefix(B))
            hA = hB = 0
            for t in A: hA = rothash(hA, t)
            for t in B: hB = rothash(hB, t)
            last2 = last ^ L(hA) ^ L(hB)
            if last2 <= max(B) or last2 >= 65536 or last2 == last or last2 in used or last2 in lead or last in used or last in lead:
                continue
            d1, d2 = A + [last], B + [last2]
            assert group_hash(d1) == group_hash(d2) and set(d1) != set(d2)
            if mode == 'collide_near':
                # further definitions around the shared hash h: member lists prefix + [x] with prefix in {A, B} hash to h + o for x = (last of that prefix) ^ h ^ (h + o).
                # One to three of them are added to the colliding pair, at offsets 1..3 above h (two of them may collide with each other in turn): the slots the collision probe has to step over (or collide with again)
                h = group_hash(d1)
                pairs = draw(st.lists(st.tuples(st.integers(0, 1), st.integers(1, 3)), min_size=1, max_size=3, unique=True))
                more, ok = [], True
                for which, o in pairs:
                    pre, lst = (A, last) if which == 0 else (B, last2)
                    x = lst ^ h ^ ((h + o) & 0xffffffff)
                    if x <= max(pre) or x >= 65536 or x in used or x in lead or x in (last, last2) or any(x in m for m in more):
                        ok = False
                        break
                    more.append(pre + [x])
                    assert group_hash(more[-1]) == (h + o) & 0xffffffff
                if not ok or not more:
                    continue
                d3 = more
            collide = True
            break
        else:
            d1, d2 = [draw(fresh)], None
        if collide:
            for body in ((d1, d2) if d3 is None else draw(st.permutations([d1, d2] + d3))):
                order = draw(st.permutations(body))
                defs.append([['field', add(t, draw(types)), i == 0 or draw(st.booleans())] for i, t in enumerate(order)])
    if not collide:
        base = draw(st.lists(fresh, min_size=1, max_size=3, unique=True))
        b1 = [['field', add(t, draw(types)), i == 0 or draw(st.booleans())] for i, t in enumerate(base)]
        if mode == 'nested_vs_flat':
            inner_num = draw(st.integers(39001, 39900))
            fields.append({'num': inner_num, 'name': 'NoGrpBA', 'type': 'NUMINGROUP', 'realm': None}); used.add(inner_num)
            inner = [['field', add(draw(fresh), draw(types)), True]]
            b2 = [list(e) for e in b1] + [['group', 'NoGrpBA', draw(st.booleans()), inner]]
        elif mode == 'top_variants3':
            # three or four definitions over the SAME member fields (one structural hash), pairwise different in mandatory flags or order
            while len(b1) < 3:
                b1.append(['field', add(draw(fresh.filter(lambda n: n not in base)), draw(types)), draw(st.booleans())])
            b1[0][2] = b1[1][2] = True
            variants = [[list(e) for e in b1]]
            v = [list(e) for e in b1]; v[-1][2] = not v[-1][2]; variants.append(v)
            v = [list(e) for e in b1]; v[0], v[1] = v[1], v[0]; variants.append(v)
            if len(b1) > 3 or draw(st.booleans()):
                v = [list(e) for e in b1]; v[-1][2] = not v[-1][2]; v[0], v[1] = v[1], v[0]; variants.append(v)
            defs = list(draw(st.permutations(variants)))[:draw(st.integers(3, len(variants)))]
            b2 = None
        elif mode in ('top_required', 'top_order'):
            # same member fields (hence the same structural hash): only a mandatory flag or the order differs
            while len(b1) < 3:
                b1.append(['field', add(draw(fresh.filter(lambda n: n not in base)), draw(types)), draw(st.booleans())])
            b2 = [list(e) for e in b1]
            if mode == 'top_required':
                b2[-1][2] = not b2[-1][2]
            else:
                b2[0], b2[1] = b2[1], b2[0]
                b1[0][2] = b1[1][2] = b2[0][2] = b2[1][2] = True
        elif mode == 'disjoint':
            other = draw(st.lists(fresh.filter(lambda n: n not in base), min_size=1, max_size=3, unique=True))
            b2 = [['field', add(t, draw(types)), i == 0 or draw(st.booleans())] for i, t in enumerate(other)]
        else:
            b2 = [list(e) for e in b1] + [['field', add(draw(fresh.filter(lambda n: n not in base)), draw(types)), draw(st.booleans())]]
        if b2 is not None:
            defs = [b1, b2]
    if draw(st.booleans()):
        defs.append([list(e) for e in defs[draw(st.integers(0, len(defs) - 1))]])          # a further message sharing one of the definitions
    msgs = []
    for k, body in enumerate(defs):
        extra = [['field', add(draw(fresh), draw(types)), draw(st.booleans())] for _ in range(draw(st.integers(0, 2)))]
        els = extra + [['group', count, draw(st.booleans()), body]]
        if draw(st.booleans()):
            els.reverse()
        msgs.append({'name': ident(k, 'Msg'), 'msgtype': 'G%s' % chr(65 + k), 'cat': 'app', 'els': els})
    return dedupe_messages({'fields': fields, 'comps': {}, 'msgs': msgs, 'family': 'c14', 'mode': mode, 'collide': collide})


def used_fields(model):
    """names of the fields some message, the header or the trailer uses (f8c generates code for these only, unless run with -f)"""
    used = {n for n, _ in HEADER} | {n for n, _ in TRAILER}
    for m in model['msgs']:
        used.update(flatten_names(m['els'], model['comps']))
    return used
