"""libFuzzer campaign driver: fresh corpus per job, fixed -runs and -seed, counters read from the target's own stats files,
crash artifacts replayed 3x against the same binary before they count."""
import os, subprocess, tempfile, json, glob, shutil, hashlib, time
import pbt


def target_path(name):
    return os.path.join(pbt.BUILD, 'fuzz', name)


def _env(statsprefix, scratch):
    env = dict(os.environ)
    env.update({'TZ': 'UTC', 'VERIF_FUZZ_STATS': statsprefix, 'VERIF_SCRATCH': scratch,
                'ASAN_OPTIONS': 'detect_leaks=0:allocator_may_return_null=1:detect_stack_use_after_return=0:handle_abort=1',
                'UBSAN_OPTIONS': 'print_stacktrace=1:halt_on_error=1'})
    return env


def replay(name, data, timeout=120, times=1):
    """run the target on one input; returns None if it passes every time, else the report text"""
    scratch = pbt.scratch_root()
    fd, path = tempfile.mkstemp(dir=scratch, prefix='replay-')
    os.write(fd, data)
    os.close(fd)
    try:
        rep = None
        for _ in range(times):
            try:
                r = subprocess.run([target_path(name), '-timeout=%d' % timeout, path], env=_env(os.path.join(scratch, 'rst'), scratch), cwd=scratch,
                                   stdout=subprocess.PIPE, stderr=subprocess.STDOUT, timeout=timeout + 30)
            except subprocess.TimeoutExpired:
                return 'replay hung for more than %d s' % timeout
            if r.returncode == 0:
                return None
            out = r.stdout.decode('latin-1')
            i = max(out.find('ORACLE-FAIL'), 0) if 'ORACLE-FAIL' in out else max(out.find('ERROR: '), out.find('runtime error:'), 0)
            rep = out[max(0, i - 200):i + 5000]
        return rep
    finally:
        try:
            os.unlink(path)
        except OSError:
            pass


def campaign(name, seed, jobs, runs, max_len, seeds=(), dictionary=None, timeout=10, extra_args=()):
    """returns (stats dict, [failing inputs as bytes])"""
    scratch = tempfile.mkdtemp(prefix='fuzz-' + name + '.', dir=pbt.scratch_root())
    procs = []
    t0 = time.time()
    dict_path = None
    if dictionary:
        dict_path = os.path.join(scratch, 'dict.txt')
        with open(dict_path, 'w') as f:
            for tok in dictionary:
                f.write('"' + ''.join('\\x%02x' % b for b in tok) + '"\n')
    for j in range(jobs):
        cdir = os.path.join(scratch, 'corpus%d' % j)
        os.makedirs(cdir)
        for i, s in enumerate(seeds):
            with open(os.path.join(cdir, 'seed%04d' % i), 'wb') as f:
                f.write(s)
        jseed = (seed * 1000 + j * 7 + 1) & 0x7fffffff or 1
        args = [target_path(name), '-seed=%d' % jseed, '-runs=%d' % runs, '-max_len=%d' % max_len, '-timeout=%d' % timeout,
                '-rss_limit_mb=3000', '-artifact_prefix=%s/art%d-' % (scratch, j), '-print_final_stats=1', '-len_control=50']
        if dict_path:
            args.append('-dict=' + dict_path)
        args += list(extra_args) + [cdir]
        log = open(os.path.join(scratch, 'log%d' % j), 'wb')
        procs.append((subprocess.Popen(args, env=_env(os.path.join(scratch, 'st'), scratch), cwd=scratch, stdout=log, stderr=subprocess.STDOUT), log))
    for p, log in procs:
        p.wait()
        log.close()
    stats = {'execs': 0, 'nontrivial': 0, 'accepted': 0, 'distinct_max_job': 0, 'samples': [], 'jobs': jobs, 'runs_per_job': runs}
    for fn in glob.glob(os.path.join(scratch, 'st.*')):
        try:
            d = json.load(open(fn))
        except Exception:
            continue
        stats['execs'] += d['execs']
        stats['nontrivial'] += d['nontrivial']
        stats['accepted'] += d['accepted']
        stats['distinct_max_job'] = max(stats['distinct_max_job'], d['distinct'])
        for s in d['samples']:
            if len(stats['samples']) < 4:
                stats['samples'].append(s)
    fails = []
    noise = 0
    for fn in sorted(glob.glob(os.path.join(scratch, 'art*'))):
        base = os.path.basename(fn)
        kind = base.split('-', 1)[1].split('-')[0]
        data = open(fn, 'rb').read()
        if kind in ('crash', 'leak'):
            if replay(name, data, times=3) is not None:
                fails.append(data)
            else:
                noise += 1
        elif kind == 'timeout':
            if replay(name, data, timeout=timeout * 10, times=3) is not None:
                fails.append(data)
            else:
                noise += 1
        else:
            noise += 1      # oom-/slow-unit-: load noise
    stats['unreproducible_or_noise_artifacts'] = noise
    stats['wall_s'] = round(time.time() - t0, 1)
    shutil.rmtree(scratch, ignore_errors=True)
    return stats, fails
