"""Session-level reference helpers (independent of fix8): building inbound FIX messages, splitting the outbound byte stream into
messages, a thin driver for the fx executor's `sess` commands, and the protocol constants the session checks share."""
import datetime, json
import fixref
from pbt import Violation

SOH = '\x01'

# Session states (include/fix8/session.hpp States::SessionStates)
(ST_NONE, ST_CONTINUOUS, ST_TERMINATED, ST_WAIT_LOGON, ST_NOT_LOGGED_IN, ST_LOGON_SENT, ST_LOGON_RECEIVED, ST_LOGOFF_SENT,
 ST_LOGOFF_RECEIVED, ST_TEST_REQUEST_SENT, ST_SEQ_RESET_SENT, ST_SEQ_RESET_RECEIVED, ST_RESEND_REQUEST_SENT,
 ST_RESEND_REQUEST_RECEIVED) = range(14)
STATE_NAMES = ['none', 'continuous', 'session_terminated', 'wait_for_logon', 'not_logged_in', 'logon_sent', 'logon_received', 'logoff_sent',
               'logoff_received', 'test_request_sent', 'sequence_reset_sent', 'sequence_reset_received', 'resend_request_sent', 'resend_request_received']

BEGIN = {'UTEST': 'FIX.4.2', 'F44': 'FIX.4.4'}
ADMIN_TYPES = set('0A12345')


def hx(s):
    b = s.encode('latin-1') if isinstance(s, str) else s
    return b.hex() if b else '-'


def unhx(h):
    return bytes.fromhex(h).decode('latin-1')


def ts(sec, ms=0):
    """UTCTimestamp text of epoch seconds (+ms)"""
    return (datetime.datetime(1970, 1, 1) + datetime.timedelta(seconds=sec)).strftime('%Y%m%d-%H:%M:%S') + '.%03d' % ms


def checksum(s):
    return sum(s.encode('latin-1')) % 256


def frame(begin, toks):
    """frame tokens [(tag, value)...] (everything after BodyLength, before CheckSum) into a wire message"""
    body = ''.join('%s=%s\x01' % (t, v) for t, v in toks)
    s = '8=%s\x019=%d\x01' % (begin, len(body)) + body
    return s + '10=%03d\x01' % checksum(s)


class Msg:
    """a wire message split into tokens (no data fields are used in session traffic here)"""
    __slots__ = ('raw', 'toks')

    def __init__(self, raw, data_tags=None):
        """data_tags: {data tag: its Length tag} - with it, length-prefixed fields are split by their declared length (content may hold SOH and '=')"""
        self.raw = raw
        self.toks = []
        if data_tags:
            import fixref
            self.toks = [(str(k), v) for k, v in fixref.tokenize(None, raw, data_tags)]
            return
        for t in raw.split(SOH)[:-1]:
            k, _, v = t.partition('=')
            self.toks.append((k, v))

    def get(self, tag, default=None):
        tag = str(tag)
        for k, v in self.toks:
            if k == tag:
                return v
        return default

    def count(self, tag):
        tag = str(tag)
        return sum(1 for k, _ in self.toks if k == tag)

    @property
    def type(self): return self.get(35)

    @property
    def seq(self):
        v = self.get(34)
        return int(v) if v is not None and v.isdigit() else None

    @property
    def possdup(self): return self.get(43) == 'Y'

    @property
    def is_admin(self): return self.type in ADMIN_TYPES

    def body_toks(self):
        """tokens that are neither framing nor standard-header bookkeeping: the application content"""
        skip = {'8', '9', '35', '49', '56', '34', '52', '43', '122', '97', '10'}
        return [(k, v) for k, v in self.toks if k not in skip]

    def show(self):
        return self.raw.replace(SOH, '|')


def split_stream(s, begin, data_tags=None):
    """split a byte stream into framed FIX messages using BodyLength; raises Violation when the stream is not a sequence of well-framed messages"""
    out = []
    i = 0
    pre = '8=%s\x019=' % begin
    while i < len(s):
        if not s.startswith(pre, i):
            raise Violation('outbound stream is not framed at offset %d: %r' % (i, s[i:i + 60]))
        j = s.index(SOH, i + len(pre))
        n = s[i + len(pre):j]
        if not n.isdigit():
            raise Violation('outbound BodyLength not numeric at offset %d: %r' % (i, s[i:i + 60]))
        end = j + 1 + int(n) + 7
        raw = s[i:end]
        if len(raw) != end - i or not raw.endswith(SOH) or raw[-7:-4] != '10=':
            raise Violation('outbound message truncated or BodyLength wrong at offset %d: %r' % (i, s[i:i + 80]))
        if int(raw[-4:-1]) != checksum(raw[:-7]):
            raise Violation('outbound message with wrong checksum: %r' % raw.replace(SOH, '|'))
        out.append(Msg(raw, data_tags))
        i = end
    return out


class Obs:
    """decoded answer of one sess command"""

    def __init__(self, d, begin, data_tags=None):
        self.d = d
        self.data_tags = data_tags
        self.out_chunks = [unhx(x) for x in d.get('out', [])]
        self.out_raw = ''.join(self.out_chunks)
        self.proc = [unhx(x) for x in d.get('proc', [])]
        self.deliv = []
        for x in d.get('deliv', []):
            self.deliv.append({'seq': x['seq'], 'type': x['type'], 'h': Msg(unhx(x['h'])), 'b': Msg(unhx(x['b']))})
        self.trans = d.get('trans', [])
        self.st = d.get('st')
        self.nss = d.get('nss')
        self.nrs = d.get('nrs')
        self.shut = d.get('shut')
        self.ctrl = d.get('ctrl')
        self.ret = d.get('ret')
        self.pend = d.get('pend')
        self.begin = begin
        self._msgs = None

    @property
    def msgs(self):
        if self._msgs is None:
            self._msgs = split_stream(self.out_raw, self.begin, self.data_tags)
        return self._msgs


class Sess:
    def __init__(self, ex, schema='UTEST', slot=0, data_tags=None):
        self.ex, self.slot, self.schema = ex, slot, schema
        self.data_tags = data_tags
        self.begin = BEGIN[schema]
        self.log = []

    def _call(self, line):
        self.log.append(line if len(line) < 300 else line[:300] + '...')
        return Obs(self.ex.call(line), self.begin, self.data_tags)

    def new(self, role, sender, target, hb=30, persist='none', flags='-', sseq=0, rseq=0, pm='coro'):
        return self._call('sess new %d %s %s %s %s %s %d %s %s %d %d' % (self.slot, role, pm, self.schema, sender, target, hb, persist, flags or '-', sseq, rseq))

    def feed(self, data, chunks=None, expect=-1):
        return self._call('sess in %d %s %s %d' % (self.slot, hx(data), ','.join(map(str, chunks)) if chunks else '-', expect))

    def send(self, spec):
        return self._call('sess send %d %s' % (self.slot, spec))

    def batch(self, specs):
        return self._call('sess batch %d %s' % (self.slot, ' '.join(specs)))

    def tick(self): return self._call('sess tick %d' % self.slot)
    def failnext(self, n=1): return self._call('sess failnext %d %d' % (self.slot, n))
    def obs(self): return self._call('sess obs %d' % self.slot)
    def stop(self): return self._call('sess stop %d' % self.slot)
    def delete(self): return self._call('sess del %d' % self.slot)
    def get(self, seq): return self._call('sess get %d %d' % (self.slot, seq))
    def conc(self, scripts): return self._call('sess conc %d %d %s' % (self.slot, len(scripts), ';'.join(','.join(s) for s in scripts)))


def set_clock(ex, sec, nsec=0):
    ex.call('clock set %d %d' % (sec, nsec))


def wipe(ex):
    ex.call('sess wipe')


def nos_spec(oid, ticks=0, data=None, header=''):
    """NewOrderSingle with the mandatory fields of FIX42UTEST and FIX44 (tokens for the executor's message builder);
    data: optional bytes for the EncodedTextLen/EncodedText pair (354/355), any byte values"""
    extra = ''
    if data is not None:
        extra = 'F 354 i:%d F 355 s:%s ' % (len(data), hx(data))
    return 'M 44 %sF 11 s:%s F 21 c:49 F 55 s:%s F 54 c:49 F 60 t:%d F 40 c:49 %s;' % (header, hx(oid), hx('IBM'), ticks, extra)


SESSION_MANAGED = (8, 9, 35, 49, 56, 34, 43, 52, 122)


def app_spec(spec):
    """tokens for a generated message (fixref spec) handed to Session::send: the header fields the session manages itself and the CheckSum are left to it"""
    import fixref
    s2 = {'type': spec['type'], 'h': [it for it in spec['h'] if it['t'] not in SESSION_MANAGED], 'b': spec['b'], 't': [it for it in spec['t'] if it['t'] != 10]}
    return fixref.spec_tokens(s2) + ' ;'


def preset_header(seq, possdup=False, sending_ticks=None):
    """header tokens of a message the application hands to send() with MsgSeqNum (and possibly PossDupFlag / SendingTime) already present"""
    return 'H F 34 i:%d %s%sB ' % (seq, 'F 43 b:1 ' if possdup else '', '' if sending_ticks is None else 'F 52 t:%d ' % sending_ticks)


def nos_toks(oid, tstext):
    return [(11, oid), (21, '1'), (55, 'IBM'), (54, '1'), (60, tstext), (40, '1')]


def inbound(begin, mtype, sender, target, seq, sending, extra=(), possdup=None, orig=None, pre_seq=()):
    """an inbound message as a conformant peer would send it; pre_seq = header tokens placed before MsgSeqNum"""
    toks = [(35, mtype), (49, sender), (56, target)] + list(pre_seq) + [(34, seq)]
    if possdup is not None:
        toks.append((43, possdup))
    toks.append((52, sending))
    if orig is not None:
        toks.append((122, orig))
    return frame(begin, toks + list(extra))
