"""Reference FIX model, independent of fix8's codec: schema model, message specs, reference encoder,
wire tokeniser, strict validator, expected-dump construction and comparison, Hypothesis strategies."""
import datetime, json, functools
from fractions import Fraction
from hypothesis import strategies as st

SOH = '\x01'

# FieldTrait::FieldType (include/fix8/traits.hpp)
(FT_untyped, FT_int, FT_Length, FT_TagNum, FT_SeqNum, FT_NumInGroup, FT_DayOfMonth, FT_char, FT_Boolean, FT_float,
 FT_Qty, FT_Price, FT_PriceOffset, FT_Amt, FT_Percentage, FT_string, FT_MultipleCharValue, FT_MultipleStringValue,
 FT_Country, FT_Currency, FT_Exchange, FT_MonthYear, FT_UTCTimestamp, FT_UTCTimeOnly, FT_UTCDateOnly, FT_LocalMktDate,
 FT_TZTimeOnly, FT_TZTimestamp, FT_data, FT_XMLData, FT_pattern, FT_Tenor, FT_Reserved100Plus, FT_Reserved1000Plus,
 FT_Reserved4000Plus, FT_Language) = range(36)


def is_int(ft): return FT_int <= ft <= FT_DayOfMonth
def is_char(ft): return FT_char <= ft <= FT_Boolean
def is_float(ft): return FT_float <= ft <= FT_Percentage
def is_string(ft): return FT_string <= ft <= FT_Language
def is_time(ft): return ft in (FT_MonthYear, FT_UTCTimestamp, FT_UTCTimeOnly, FT_UTCDateOnly, FT_LocalMktDate)


BIT_MANDATORY, BIT_PRESENT, BIT_POSITION, BIT_GROUP, BIT_COMPONENT, BIT_SUPPRESS, BIT_AUTOMATIC = (1 << i for i in range(7))


class Trait:
    __slots__ = ('tag', 'ft', 'pos', 'comp', 'man', 'grp', 'bits', 'sub', 'gname')

    def __init__(self, d):
        self.tag, self.ft, self.pos, self.comp = d['tag'], d['ft'], d['pos'], d['comp']
        self.man, self.grp, self.bits = d['man'], d['grp'], d['bits']
        self.gname = d.get('gname')
        self.sub = Traits(d['sub']) if d.get('sub') else None

    @property
    def automatic(self): return bool(self.bits & BIT_AUTOMATIC)


class Traits:
    def __init__(self, lst):
        self.list = [Trait(d) for d in lst]
        self.by_tag = {t.tag: t for t in self.list}
        self.by_pos = sorted(self.list, key=lambda t: t.pos)

    def __contains__(self, tag): return tag in self.by_tag
    def __getitem__(self, tag): return self.by_tag[tag]
    def get(self, tag): return self.by_tag.get(tag)

    def first(self):
        return self.by_pos[0] if self.by_pos else None

    def pairs(self):
        """(Length tag, data tag) pairs the decoder treats as length-prefixed: Length at t, data at t+1"""
        out = []
        for t in self.list:
            if t.ft == FT_Length and t.tag != 9:
                d = self.by_tag.get(t.tag + 1)
                if d is not None and d.ft == FT_data:
                    out.append((t.tag, d.tag))
                elif t.tag == 93 and 89 in self.by_tag and self.by_tag[89].ft == FT_data:
                    out.append((93, 89))     # SignatureLength/Signature: the one FIX pair whose tags are not adjacent
        return out


class Schema:
    def __init__(self, name, d):
        self.name = name
        self.begin = d['begin']
        self.version = d['version']
        self.fields = {int(k): v for k, v in d['fields'].items()}
        self.msgs = {}
        for k, v in d['msgs'].items():
            tr = Traits(v['traits'])
            if k == 'header': self.header = tr
            elif k == 'trailer': self.trailer = tr
            else: self.msgs[k] = (v['name'], v.get('admin', False), tr)
        self.raw = d

    def traits(self, mtype): return self.msgs[mtype][2]
    def types(self): return sorted(self.msgs)

    def all_tags(self):
        return set(self.fields)


_schema_cache = {}


def load_schema(ex, name):
    if name not in _schema_cache:
        _schema_cache[name] = Schema(name, ex.call('schema ' + name))
    return _schema_cache[name]


# ------------------------------------------------------------------------------------------------
# values: item = {'t': tag, 'k': kind, 'v': value [, 'g': [[items]...]]}
EPOCH = datetime.datetime(1970, 1, 1)
MS_MAX = int((datetime.datetime(2100, 1, 1) - EPOCH).total_seconds() * 1000) - 1
DAY_MAX = (datetime.date(2099, 12, 31) - datetime.date(1970, 1, 1)).days


def hexs(s):
    b = s.encode('latin-1') if isinstance(s, str) else s
    return b.hex() if b else '-'


def kind_of(ft):
    if is_int(ft): return 'i'
    if ft == FT_Boolean: return 'b'
    if is_char(ft): return 'c'
    if is_float(ft): return 'f'
    if ft == FT_UTCTimestamp: return 't'
    if ft == FT_UTCTimeOnly: return 'o'
    if ft in (FT_UTCDateOnly, FT_LocalMktDate): return 'd'
    if ft == FT_MonthYear: return 'm'
    return 's'


def float_text(k, prec=2):
    """canonical text of k / 10^prec: at most prec fraction digits, trailing zeros stripped, at least one digit"""
    neg = k < 0
    k = abs(k)
    whole, frac = divmod(k, 10 ** prec)
    if prec == 0:
        s = str(whole)
    else:
        f = ('%0*d' % (prec, frac)).rstrip('0') or '0'
        s = '%d.%s' % (whole, f)
    return ('-' if neg else '') + s


def ref_text(item):
    """independent rendering of a typed value as FIX text"""
    k, v = item['k'], item['v']
    if k == 'i': return str(v)
    if k == 'c': return chr(v)
    if k == 'b': return 'Y' if v else 'N'
    if k == 'f': return float_text(v, item.get('p', 2))
    if k == 's': return v
    if k == 't':
        dt = EPOCH + datetime.timedelta(milliseconds=v)
        return dt.strftime('%Y%m%d-%H:%M:%S.') + '%03d' % (v % 1000)
    if k == 'o':
        s, ms = divmod(v, 1000)
        return '%02d:%02d:%02d.%03d' % (s // 3600, s // 60 % 60, s % 60, ms)
    if k == 'd':
        return (datetime.date(1970, 1, 1) + datetime.timedelta(days=v)).strftime('%Y%m%d')
    if k == 'm':
        y, m, d = v
        return '%04d%02d' % (y, m) + ('%02d' % d if d else '')
    raise ValueError(k)


def expected_ticks(item):
    k, v = item['k'], item['v']
    if k == 't' or k == 'o': return v * 1000000
    if k == 'd': return v * 86400 * 1000000000
    if k == 'm':
        y, m, d = v
        return (datetime.date(y, m, d or 1) - datetime.date(1970, 1, 1)).days * 86400 * 1000000000
    raise ValueError(k)


def token_arg(item):
    """argument for the executor's F token: typed construction that bypasses the library's text parsers"""
    k, v = item['k'], item['v']
    if k in 'ib': return '%s:%d' % (k, v)
    if k == 'c': return 'c:%d' % v
    if k == 'f': return 'f:%s:%d' % ((float(Fraction(v, 10 ** item.get('p', 2)))).hex(), item.get('p', 2))     # item['p']: precision the field is built with (default 2)
    if k == 's': return 's:' + hexs(v)
    if k in 'tod': return '%s:%d' % (k, expected_ticks(item))
    if k == 'm': return 'm:%s:%d' % (hexs(ref_text(item)), expected_ticks(item))
    raise ValueError(k)


def items_tokens(items):
    out = []
    for it in items:
        out.append('F %d %s' % (it['t'], token_arg(it)))
        if 'g' in it and it['g']:
            out.append('G %d' % it['t'])
            for el in it['g']:
                out.append('E')
                out.extend(items_tokens(el))
                out.append('e')
            out.append('g')
    return out


def spec_tokens(spec):
    out = ['M ' + hexs(spec['type'])]
    for sec, key in (('H', 'h'), ('B', 'b'), ('T', 't')):
        out.append(sec)
        out.extend(items_tokens(spec[key]))
    return ' '.join(out)


# ------------------------------------------------------------------------------------------------
def ordered(items, traits):
    return sorted(items, key=lambda it: traits[it['t']].pos)


def ref_tokens(items, traits):
    """reference wire tokens [(tag, text)] for a section / group element, in schema position order"""
    out = []
    for it in ordered(items, traits):
        out.append((it['t'], ref_text(it)))
        if it.get('g'):
            sub = traits[it['t']].sub
            for el in it['g']:
                out.extend(ref_tokens(el, sub))
    return out


def render(tokens):
    return ''.join('%d=%s\x01' % (t, v) for t, v in tokens)


def checksum(s):
    return sum(s.encode('latin-1')) % 256


def ref_encode(schema, spec, extra_body=''):
    """reference encoder: BeginString, BodyLength, MsgType, header, body, trailer, CheckSum"""
    tr = schema.traits(spec['type'])
    body = '35=%s\x01' % spec['type'] + render(ref_tokens(spec['h'], schema.header)) + \
           render(ref_tokens(spec['b'], tr)) + extra_body + render(ref_tokens(spec['t'], schema.trailer))
    head = '8=%s\x019=%d\x01' % (schema.begin, len(body))
    s = head + body
    return s + '10=%03d\x01' % checksum(s)


def finish_tokens(schema, toks):
    """given all tokens after BodyLength and before CheckSum, produce the framed message string"""
    body = render(toks)
    s = '8=%s\x019=%d\x01' % (schema.begin, len(body)) + body
    return s + '10=%03d\x01' % checksum(s)


# ------------------------------------------------------------------------------------------------
def expected_dump(schema, spec, bodylen=None, chk=None):
    """what dump_msg must report for a decoded copy of spec: ordered (tag, kind, value, groups)"""
    def sec(items, traits):
        out = []
        for it in ordered(items, traits):
            e = {'t': it['t'], 'k': it['k'], 'v': it['v']}
            if traits[it['t']].grp:
                e['g'] = [sec(el, traits[it['t']].sub) for el in it.get('g', [])]
            out.append(e)
        return out
    auto = [{'t': 8, 'k': 's', 'v': schema.begin}, {'t': 9, 'k': 'i', 'v': bodylen}, {'t': 35, 'k': 's', 'v': spec['type']},
            {'t': 10, 'k': 's', 'v': chk}]
    return {'h': sec(spec['h'], schema.header), 'b': sec(spec['b'], schema.traits(spec['type'])),
            't': sec(spec['t'], schema.trailer), 'auto': auto}


def cmp_value(e, got):
    """compare expected typed value with the dumped field; returns None or a message"""
    k, v = e['k'], e['v']
    if 'v' not in got:
        return 'field %d dumped without value (%r)' % (e['t'], got)
    gv = got['v']
    if v is None:
        return None
    if k in 'icb':
        return None if gv == v else 'tag %d: int/char value %r != expected %r' % (e['t'], gv, v)
    if k == 'f':
        x = float.fromhex(gv)
        want = v / 100.0
        return None if abs(x - want) <= 1e-9 * max(1.0, abs(want)) else 'tag %d: float value %r != expected %r' % (e['t'], x, want)
    if k == 's':
        s = bytes.fromhex(gv).decode('latin-1')
        return None if s == v else 'tag %d: string value %r != expected %r' % (e['t'], s, v)
    want = expected_ticks(e)
    return None if gv == want else 'tag %d: time value %r ticks != expected %r (%s)' % (e['t'], gv, want, ref_text(e))


def cmp_section(exp, got, where):
    if len(exp) != len(got):
        return '%s: %d fields decoded, %d expected: got tags %s expected %s' % (
            where, len(got), len(exp), [g['t'] for g in got], [e['t'] for e in exp])
    for e, g in zip(exp, got):
        if e['t'] != g['t']:
            return '%s: tag order/identity differs: got %s expected %s' % (where, [x['t'] for x in got], [x['t'] for x in exp])
        m = cmp_value(e, g)
        if m: return where + ': ' + m
        if 'g' in e:
            gg = g.get('g', [])
            if len(gg) != len(e['g']):
                return '%s: group %d has %d elements, expected %d' % (where, e['t'], len(gg), len(e['g']))
            for i, (ee, ge) in enumerate(zip(e['g'], gg)):
                m = cmp_section(ee, ge, '%s/%d[%d]' % (where, e['t'], i))
                if m: return m
    return None


AUTO_TAGS = (8, 9, 35, 10)


def cmp_dump(exp, got):
    """the framing fields 8/9/35/10 are pre-created by the header/trailer objects (their place in the position map is an
    implementation detail): they are compared by value; all other fields are compared in order"""
    autos = {g['t']: g for s in 'ht' for g in got[s] if g['t'] in AUTO_TAGS}
    for e in exp.get('auto', []):
        if e['t'] not in autos:
            return 'framing field %d missing from decoded message' % e['t']
        m = cmp_value(e, autos[e['t']])
        if m: return m
    for s in 'hbt':
        m = cmp_section(exp[s], [g for g in got[s] if g['t'] not in AUTO_TAGS], s)
        if m: return m
    return None


# ------------------------------------------------------------------------------------------------
# wire tokeniser (Length-prefixed data aware) and structure checks
def tokenize(schema, s, data_tags=None):
    """split wire bytes into [(tag:int, value:str)]; data fields (tag-1 is a Length token just before) are length-delimited.
    raises ValueError on malformed token"""
    out = []
    i, n = 0, len(s)
    prev = None
    while i < n:
        j = s.find('=', i)
        if j < 0: raise ValueError('no = after offset %d' % i)
        tagtxt = s[i:j]
        if not tagtxt.isdigit() or not tagtxt.isascii(): raise ValueError('bad tag %r at %d' % (tagtxt, i))
        tag = int(tagtxt)
        if prev is not None and data_tags is not None and tag in data_tags and prev[0] == data_tags[tag] and prev[1].isdigit():
            ln = int(prev[1])
            val = s[j + 1:j + 1 + ln]
            if len(val) != ln or s[j + 1 + ln:j + 2 + ln] != SOH: raise ValueError('data field %d overruns' % tag)
            i = j + 2 + ln
        else:
            k = s.find(SOH, j + 1)
            if k < 0: raise ValueError('no SOH after offset %d' % j)
            val = s[j + 1:k]
            i = k + 1
        if tagtxt != str(tag): raise ValueError('non-canonical tag %r' % tagtxt)
        out.append((tag, val))
        prev = (tag, val)
    return out


_data_tags_cache = {}


def data_tags_of(schema):
    """all tags that are the data half of a Length/data pair anywhere in the schema"""
    if schema.name in _data_tags_cache:
        return _data_tags_cache[schema.name]
    out = _data_tags_cache.setdefault(schema.name, {})     # data tag -> its Length tag
    def walk(tr):
        for a, b in tr.pairs(): out[b] = a
        for t in tr.list:
            if t.sub: walk(t.sub)
    walk(schema.header); walk(schema.trailer)
    for _, _, tr in schema.msgs.values(): walk(tr)
    return out


class Malformed(Exception):
    pass


def parse_section(toks, i, traits, stop_on_unknown=True):
    """consume tokens belonging to a section/element according to traits; returns (items, next index).
    Checks position order, duplicates, group structure. Raises Malformed."""
    items = []
    seen = set()
    lastpos = 0
    while i < len(toks):
        tag, val = toks[i]
        tr = traits.get(tag)
        if tr is None: break
        if tag in seen: break   # caller decides (next element or duplicate)
        if tr.pos < lastpos:
            raise Malformed('tag %d (pos %d) after pos %d: not in schema position order' % (tag, tr.pos, lastpos))
        lastpos = tr.pos
        seen.add(tag)
        it = {'t': tag, 'x': val}
        i += 1
        if tr.grp:
            if not val.isdigit(): raise Malformed('group count %d not numeric: %r' % (tag, val))
            cnt = int(val)
            els = []
            first = tr.sub.first().tag if tr.sub and tr.sub.first() else None
            for _ in range(cnt):
                if i >= len(toks) or toks[i][0] != first:
                    raise Malformed('group %d: element does not start with first field %s (got %s)' % (
                        tag, first, toks[i][0] if i < len(toks) else None))
                el, i = parse_section(toks, i, tr.sub)
                els.append(el)
            if i < len(toks) and toks[i][0] == first and first not in traits:
                raise Malformed('group %d: more elements than its count %d' % (tag, cnt))
            it['g'] = els
        items.append(it)
    return items, i


def check_framing(schema, s):
    """framing rules on bytes only: 8,9,35 first, BodyLength, CheckSum; returns the token list"""
    if not s.endswith(SOH): raise Malformed('does not end with SOH')
    try:
        toks = tokenize(schema, s, data_tags_of(schema))
    except ValueError as e:
        raise Malformed('tokenise: %s' % e)
    if len(toks) < 4: raise Malformed('fewer than 4 fields')
    if toks[0] != (8, schema.begin): raise Malformed('first field is %r, not BeginString' % (toks[0],))
    if toks[1][0] != 9: raise Malformed('second field is %d, not BodyLength' % toks[1][0])
    if toks[2][0] != 35: raise Malformed('third field is %d, not MsgType' % toks[2][0])
    if toks[-1][0] != 10: raise Malformed('last field is %d, not CheckSum' % toks[-1][0])
    blen_txt = toks[1][1]
    if not blen_txt.isdigit() or str(int(blen_txt)) != blen_txt: raise Malformed('BodyLength text %r' % blen_txt)
    head_len = len('8=%s\x019=%s\x01' % (schema.begin, blen_txt))
    trailer_len = len('10=%s\x01' % toks[-1][1])
    actual = len(s) - head_len - trailer_len
    if int(blen_txt) != actual: raise Malformed('BodyLength %s but %d bytes between BodyLength and CheckSum' % (blen_txt, actual))
    ck = toks[-1][1]
    if len(ck) != 3 or not ck.isdigit(): raise Malformed('CheckSum text %r is not three digits' % ck)
    want = checksum(s[:len(s) - trailer_len])
    if int(ck) != want: raise Malformed('CheckSum %s but byte sum mod 256 is %03d' % (ck, want))
    return toks


def check_wellformed(schema, s):
    """C02 oracle on bytes only. Returns parsed {'type','h','b','t'} or raises Malformed."""
    if not s.endswith(SOH): raise Malformed('does not end with SOH')
    try:
        toks = tokenize(schema, s, data_tags_of(schema))
    except ValueError as e:
        raise Malformed('tokenise: %s' % e)
    if len(toks) < 4: raise Malformed('fewer than 4 fields')
    if toks[0] != (8, schema.begin): raise Malformed('first field is %r, not BeginString' % (toks[0],))
    if toks[1][0] != 9: raise Malformed('second field is %d, not BodyLength' % toks[1][0])
    if toks[2][0] != 35: raise Malformed('third field is %d, not MsgType' % toks[2][0])
    if toks[-1][0] != 10: raise Malformed('last field is %d, not CheckSum' % toks[-1][0])
    blen_txt = toks[1][1]
    if not blen_txt.isdigit() or str(int(blen_txt)) != blen_txt: raise Malformed('BodyLength text %r' % blen_txt)
    head_len = len('8=%s\x019=%s\x01' % (schema.begin, blen_txt))
    trailer_len = len('10=%s\x01' % toks[-1][1])
    actual = len(s) - head_len - trailer_len
    if int(blen_txt) != actual: raise Malformed('BodyLength %s but %d bytes between BodyLength and CheckSum' % (blen_txt, actual))
    ck = toks[-1][1]
    if len(ck) != 3 or not ck.isdigit(): raise Malformed('CheckSum text %r is not three digits' % ck)
    want = checksum(s[:len(s) - trailer_len])
    if int(ck) != want: raise Malformed('CheckSum %s but byte sum mod 256 is %03d' % (ck, want))
    mtype = toks[2][1]
    if mtype not in schema.msgs: raise Malformed('unknown MsgType %r' % mtype)
    body_toks = toks[3:-1]
    h, i = parse_section(body_toks, 0, schema.header)
    b, i = parse_section(body_toks, i, schema.traits(mtype))
    t, i = parse_section(body_toks, i, schema.trailer)
    if i != len(body_toks):
        raise Malformed('token %d=%r at index %d fits neither header, body nor trailer order (header, then body, then trailer)' % (
            body_toks[i][0], body_toks[i][1][:40], i))
    return {'type': mtype, 'h': h, 'b': b, 't': t}


def flat_tokens(items):
    out = []
    for it in items:
        out.append((it['t'], it['x']))
        for el in it.get('g', []):
            out.extend(flat_tokens(el))
    return out


# ------------------------------------------------------------------------------------------------
# strategies
PRINTABLE = ''.join(chr(c) for c in range(0x20, 0x7f))
_txt_alpha = st.sampled_from(PRINTABLE)
INT32_EDGES = [0, 1, -1, 9, 10, -9, -10, 99, 100, 2 ** 31 - 1, -2 ** 31, -2 ** 31 + 1, 2 ** 31 - 2, 1000000, -1000000, 65535, 65536]


def st_text(minlen=1, maxlen=24):
    return st.one_of(
        st.text(alphabet=st.sampled_from('ABCDEFGHIJKLMNOPQRSTUVWXYZabcdefghijklmnopqrstuvwxyz0123456789'), min_size=minlen, max_size=min(maxlen, 12)),
        st.text(alphabet=st.sampled_from(PRINTABLE), min_size=minlen, max_size=maxlen),
        st.text(alphabet=st.sampled_from('=|34 10=9=-.&<>'), min_size=minlen, max_size=min(maxlen, 10)),
    )


def st_int32():
    return st.one_of(st.sampled_from(INT32_EDGES), st.integers(-2 ** 31, 2 ** 31 - 1), st.integers(-1000, 1000))


def st_ms():
    edges = []
    for y, m, d in ((1970, 1, 1), (1999, 12, 31), (2000, 2, 29), (2000, 3, 1), (2038, 1, 19), (2038, 1, 20), (2040, 6, 1),
                    (2099, 12, 31), (2024, 2, 29), (2023, 2, 28), (2100 - 1, 1, 1)):
        base = int((datetime.datetime(y, m, d) - EPOCH).total_seconds()) * 1000
        edges += [base, base + 86399999, base + 43200000 + 123]
    return st.one_of(st.sampled_from(edges), st.integers(0, MS_MAX))


def st_value(ft, realm=None, long_strings=False):
    """strategy for a (kind, value) of FieldType ft in its *type domain*"""
    k = kind_of(ft)
    if ft in (FT_Length, FT_SeqNum, FT_TagNum, FT_NumInGroup):
        return st.one_of(st.sampled_from([0, 1, 9, 10, 2 ** 31 - 1]), st.integers(0, 2 ** 31 - 1), st.integers(0, 300)).map(lambda v: ('i', v))
    if ft == FT_DayOfMonth:
        return st.integers(1, 31).map(lambda v: ('i', v))
    if k == 'i':
        base = st_int32()
        if realm and realm['kind'] == 'set':
            base = st.one_of(st.sampled_from(realm['vals']), base)
        return base.map(lambda v: ('i', v))
    if k == 'b':
        return st.integers(0, 1).map(lambda v: ('b', v))
    if k == 'c':
        base = st.integers(0x20, 0x7e)
        if realm and realm['kind'] == 'set':
            base = st.one_of(st.sampled_from(realm['vals']), base)
        return base.map(lambda v: ('c', v))
    if k == 'f':
        return st.one_of(st.sampled_from([0, 1, -1, 5, -5, 99, 100, 101, 115, 1115, -1115, (2 ** 31 - 1) * 100, -(2 ** 31 - 1) * 100, 214748364700 - 1]),
                         st.integers(-(2 ** 31 - 1) * 100, (2 ** 31 - 1) * 100),
                         st.integers(-100000, 100000)).map(lambda v: ('f', v))
    if k == 't':
        return st_ms().map(lambda v: ('t', v))
    if k == 'o':
        return st.one_of(st.sampled_from([0, 86399999, 43200000]), st.integers(0, 86399999)).map(lambda v: ('o', v))
    if k == 'd':
        return st.one_of(st.sampled_from([0, DAY_MAX, 11016, 11017, 24855, 24856]), st.integers(0, DAY_MAX)).map(lambda v: ('d', v))
    if k == 'm':
        def mk(y, m, d, short):
            if short: return ('m', [y, m, 0])
            mx = (datetime.date(y + (m == 12), m % 12 + 1, 1) - datetime.timedelta(days=1)).day
            return ('m', [y, m, min(d, mx)])
        return st.builds(mk, st.integers(1970, 2099), st.integers(1, 12), st.integers(1, 31), st.booleans())
    base = st_text(1, 64 if not long_strings else 300)
    if realm and realm['kind'] == 'set' and not is_float(realm['ft']) and not is_int(realm['ft']) and not is_char(realm['ft']):
        members = [bytes.fromhex(v).decode('latin-1') for v in realm['vals']]
        members = [m for m in members if m]
        if members:
            base = st.one_of(st.sampled_from(members), base)
    return base.map(lambda v: ('s', v))


EXCLUDED_FT = (FT_TZTimeOnly, FT_TZTimestamp)


_value_cache = {}


def st_value_cached(schema, tr, long_strings):
    key = (schema.name, tr.tag, tr.ft, long_strings)
    if key not in _value_cache:
        _value_cache[key] = st_value(tr.ft, schema.fields.get(tr.tag, {}).get('realm'), long_strings)
    return _value_cache[key]


_big = st.integers(0, 2 ** 64 - 1)


@st.composite
def st_section(draw, schema, traits, depth=0, max_elems=3, dense=False, unpaired_length=True, data_strategy=None, long_strings=False, pair_bias=False):
    """draw the items of a header/body/trailer/group element: all mandatory fields plus a random subset of optional ones
    (subset mask: AND of two random words => each optional field with p=1/4; dense => p=1/2), random insertion order"""
    items = []
    pairs = dict(traits.pairs())          # length tag -> data tag
    data_of = {b: a for a, b in pairs.items()}
    first = traits.first()
    n = len(traits.list)
    mask = draw(st.integers(0, 2 ** n - 1))
    if not dense:
        mask &= draw(st.integers(0, 2 ** n - 1))
    pmask = draw(st.integers(0, 2 ** n - 1)) if pair_bias and pairs else 0
    for idx, tr in enumerate(traits.list):
        if tr.automatic or tr.ft in EXCLUDED_FT:
            continue
        if tr.tag in data_of:
            continue                      # emitted together with its Length field
        must = tr.man or (depth > 0 and first is not None and tr.tag == first.tag)
        if tr.tag in pairs and (traits[pairs[tr.tag]].man or (pmask >> idx) & 1):
            must = True
        if pair_bias and tr.grp and tr.sub is not None and tr.sub.pairs() and (pmask >> idx) & 1:
            must = True
        if not must and not (mask >> idx) & 1:
            continue
        if tr.grp:
            ne = draw(st.integers(0, max_elems)) if not tr.man else draw(st.integers(1, max_elems))
            if depth >= 3:
                ne = min(ne, 1)
            els = [draw(st_section(schema, tr.sub, depth + 1, max_elems, dense, unpaired_length, data_strategy, long_strings, pair_bias)) for _ in range(ne)] if tr.sub else []
            # the count field is rendered according to its declared type
            if is_int(tr.ft):
                items.append({'t': tr.tag, 'k': 'i', 'v': len(els), 'g': els})
            else:
                items.append({'t': tr.tag, 'k': 's', 'v': str(len(els)), 'g': els})
        elif tr.tag in pairs:
            content = draw(data_strategy if data_strategy is not None else st_text(1, 40))
            items.append({'t': tr.tag, 'k': 'i', 'v': len(content)})
            items.append({'t': pairs[tr.tag], 'k': 's', 'v': content})
        elif tr.ft == FT_Length and not unpaired_length:
            continue
        elif tr.ft == FT_data:
            continue                       # data field without a Length partner in this section: not generated
        else:
            k, v = draw(st_value_cached(schema, tr, long_strings))
            items.append({'t': tr.tag, 'k': k, 'v': v})
    # insertion order is random (encoding must follow schema positions regardless)
    if len(items) > 1:
        import random
        rnd = random.Random(draw(_big))
        rnd.shuffle(items)
    return items


BODY_LENGTH_EDGES = [9, 10, 11, 99, 100, 101, 999, 1000, 1001]      # BodyLength values around a change in its number of digits


def pad_to_body_length(schema, spec, target):
    """return a copy of spec whose reference encoding has BodyLength == target, by resizing (or adding) one plain string field; spec itself if that is not possible"""
    cur = int(ref_encode(schema, spec).split(SOH)[1][2:])
    delta = target - cur
    if delta == 0:
        return spec
    secs = (('b', schema.traits(spec['type'])), ('h', schema.header), ('t', schema.trailer))

    def plain(tr):
        return (tr.ft == FT_string and not tr.grp and not tr.automatic and not schema.fields.get(tr.tag, {}).get('realm')
                and tr.tag not in (8, 9, 35, 10))
    for key, traits in secs:
        for i, it in enumerate(spec[key]):
            tr = traits.get(it['t'])
            if tr is None or not plain(tr) or it['k'] != 's':
                continue
            n = len(it['v']) + delta
            if 1 <= n <= 1500:
                v = it['v'] + 'p' * delta if delta > 0 else it['v'][:n]
                out = dict(spec)
                out[key] = spec[key][:i] + [dict(it, v=v)] + spec[key][i + 1:]
                return out
    for key, traits in secs:
        present = {it['t'] for it in spec[key]}
        for tr in traits.list:
            if tr.tag in present or tr.man or not plain(tr):
                continue
            n = delta - len('%d=' % tr.tag) - 1
            if 1 <= n <= 1500:
                out = dict(spec)
                out[key] = spec[key] + [{'t': tr.tag, 'k': 's', 'v': 'p' * n}]
                return out
    return spec


@st.composite
def st_message(draw, schema, mtypes=None, **kw):
    mtype = draw(st.sampled_from(mtypes or schema.types()))
    spec = {
        'type': mtype,
        'h': draw(st_section(schema, schema.header, 0, **kw)),
        'b': draw(st_section(schema, schema.traits(mtype), 0, **kw)),
        't': draw(st_section(schema, schema.trailer, 0, **kw)),
    }
    # one message in eight is sized to a BodyLength at which the number of its digits changes
    if draw(st.integers(0, 7)) == 0:
        spec = pad_to_body_length(schema, spec, draw(st.sampled_from(BODY_LENGTH_EDGES)))
    elif draw(st.integers(0, 11)) == 0:
        spec = inflate_high_bytes(schema, spec, draw(st.integers(0, 2 ** 32 - 1)))
    return spec


def inflate_high_bytes(schema, spec, r):
    """a copy of spec in which the plain string fields of the top level carry long values of 8-bit characters (0x80-0xff), 2-6 KB in total:
    long runs of large byte values are what the word-at-a-time checksum has to carry correctly"""
    import random
    rnd = random.Random(r)
    out = dict(spec)
    budget = rnd.choice([2100, 2600, 3500, 5000, 6000])
    for key, traits in (('b', schema.traits(spec['type'])), ('h', schema.header), ('t', schema.trailer)):
        items = []
        for it in spec[key]:
            tr = traits.get(it['t'])
            if (budget > 0 and tr is not None and it['k'] == 's' and tr.ft == FT_string and not tr.grp and not tr.automatic
                    and not schema.fields.get(tr.tag, {}).get('realm') and tr.tag not in (8, 9, 35, 10, 49, 56)):
                n = min(budget, rnd.randint(600, 1500))
                lo = rnd.choice([0x80, 0xa0, 0xf0, 0xff])
                it = dict(it, v=''.join(chr(rnd.randint(lo, 0xff)) for _ in range(n)))
                budget -= n
            items.append(it)
        out[key] = items
    return out


def spec_features(schema, spec):
    """labels used for non-triviality rules"""
    f = {'optional': 0, 'neg_int': False, 'eq_in_value': False, 'groups': 0, 'multi_elem': False, 'max_depth': 0,
         'empty_group': False, 'nfields': 0, 'permuted': False, 'pairs': 0}

    def walk(items, traits, depth):
        poss = [traits[it['t']].pos for it in items]
        if poss != sorted(poss): f['permuted'] = True
        for it in items:
            tr = traits[it['t']]
            f['nfields'] += 1
            if not tr.man: f['optional'] += 1
            if it['k'] == 'i' and it['v'] < 0: f['neg_int'] = True
            if it['k'] == 's' and '=' in it['v']: f['eq_in_value'] = True
            if tr.ft == FT_data: f['pairs'] += 1
            if tr.grp:
                f['groups'] += 1
                f['max_depth'] = max(f['max_depth'], depth + 1)
                if len(it.get('g', [])) >= 2: f['multi_elem'] = True
                if not it.get('g'): f['empty_group'] = True
                for el in it.get('g', []):
                    walk(el, tr.sub, depth + 1)
    walk(spec['h'], schema.header, 0)
    walk(spec['b'], schema.traits(spec['type']), 0)
    walk(spec['t'], schema.trailer, 0)
    return f


# ------------------------------------------------------------------------------------------------
def default_value(ft, n=0):
    k = kind_of(ft)
    if k == 'i': return ('i', 1 + n)
    if k == 'b': return ('b', 1)
    if k == 'c': return ('c', 0x31 + n % 9)
    if k == 'f': return ('f', 12345 + n)
    if k == 't': return ('t', 1362365174000 + n)
    if k == 'o': return ('o', 3723004)
    if k == 'd': return ('d', 15768)
    if k == 'm': return ('m', [2013, 3, 0])
    return ('s', 'V%d' % n)


def minimal_items(traits, depth=0, full=False):
    """deterministic: every mandatory field (all fields when full), one element per generated group"""
    items = []
    pairs = dict(traits.pairs())
    data_of = {b: a for a, b in pairs.items()}
    first = traits.first()
    for n, tr in enumerate(traits.list):
        if tr.automatic or tr.ft in EXCLUDED_FT or tr.tag in data_of:
            continue
        must = tr.man or (depth > 0 and first is not None and tr.tag == first.tag) or (tr.tag in pairs and traits[pairs[tr.tag]].man)
        if not must and not full:
            continue
        if tr.grp:
            els = [minimal_items(tr.sub, depth + 1, full and depth < 1)] if tr.sub and tr.sub.list else []
            items.append({'t': tr.tag, 'k': 'i' if is_int(tr.ft) else 's', 'v': len(els) if is_int(tr.ft) else str(len(els)), 'g': els})
        elif tr.tag in pairs:
            items.append({'t': tr.tag, 'k': 'i', 'v': 4})
            items.append({'t': pairs[tr.tag], 'k': 's', 'v': 'da=a'})
        elif tr.ft == FT_data or (tr.ft == FT_Length and not tr.man):
            continue
        else:
            k, v = default_value(tr.ft, n)
            items.append({'t': tr.tag, 'k': k, 'v': v})
    return items


def random_items(traits, rnd, depth=0):
    """like minimal_items, driven by a caller-supplied random.Random: optional fields with p=1/2, groups of 0-2 elements, varied values, random insertion order"""
    items = []
    pairs = dict(traits.pairs())
    data_of = {b: a for a, b in pairs.items()}
    first = traits.first()
    for tr in traits.list:
        if tr.automatic or tr.ft in EXCLUDED_FT or tr.tag in data_of:
            continue
        must = tr.man or (depth > 0 and first is not None and tr.tag == first.tag) or (tr.tag in pairs and traits[pairs[tr.tag]].man)
        if not must and rnd.random() < 0.5:
            continue
        if tr.grp:
            ne = rnd.randint(1 if tr.man else 0, 2)
            els = [random_items(tr.sub, rnd, depth + 1) for _ in range(ne)] if tr.sub and tr.sub.list else []
            items.append({'t': tr.tag, 'k': 'i' if is_int(tr.ft) else 's', 'v': len(els) if is_int(tr.ft) else str(len(els)), 'g': els})
        elif tr.tag in pairs:
            content = ''.join(rnd.choice('ab=\x01|9') for _ in range(rnd.randint(1, 12)))
            items.append({'t': tr.tag, 'k': 'i', 'v': len(content)})
            items.append({'t': pairs[tr.tag], 'k': 's', 'v': content})
        elif tr.ft == FT_data or (tr.ft == FT_Length and not tr.man):
            continue
        else:
            k, v = default_value(tr.ft, rnd.randint(0, 400))
            items.append({'t': tr.tag, 'k': k, 'v': v})
    rnd.shuffle(items)
    return items


def random_spec(schema, mtype, rnd):
    return {'type': mtype, 'h': random_items(schema.header, rnd), 'b': random_items(schema.traits(mtype), rnd), 't': random_items(schema.trailer, rnd)}


def minimal_spec(schema, mtype, full=False):
    return {'type': mtype, 'h': minimal_items(schema.header, 0, full), 'b': minimal_items(schema.traits(mtype), 0, full),
            't': minimal_items(schema.trailer, 0, full)}
