"""Property-based-testing runner shared by all checks.

A *check* is a class with
    id            property id (C01 ...)
    strategy()    -> Hypothesis strategy producing a JSON-serialisable case
    run(case, ex) -> dict(nontrivial=bool, classes=[labels], key=hashable)   raises Violation on a property violation
    rule          text: how cases are generated and what makes one non-trivial
The runner fans the search out over worker processes (each with its own persistent C++ executor),
collects measured statistics, writes evidence/<id>.json and prints the VIOLATION / KNOWN-FINDING lines.
"""
import os, sys, json, time, hashlib, subprocess, threading, multiprocessing, traceback, signal, shutil, tempfile, collections

VERIF = os.path.dirname(os.path.dirname(os.path.dirname(os.path.abspath(__file__))))
BUILD = os.path.join(VERIF, 'build')
sys.path.insert(0, os.path.join(VERIF, 'harness', 'py'))

from hypothesis import given, settings, seed as hseed, HealthCheck, Phase, strategies as st
import hypothesis


class Violation(Exception):
    pass


class ExecutorDied(Violation):
    pass


def jdump(x):
    return json.dumps(x, sort_keys=True, separators=(',', ':'))


def case_hash(x):
    return hashlib.sha1(jdump(x).encode()).hexdigest()[:16]


_scratch_root = None


def scratch_root():
    """per-run scratch directory outside /repo and /verif, removed at exit"""
    global _scratch_root
    if _scratch_root is None:
        base = os.environ.get('VERIF_SCRATCH') or tempfile.gettempdir()
        _scratch_root = tempfile.mkdtemp(prefix='fix8verif.', dir=base)
        import atexit
        pid = os.getpid()
        atexit.register(lambda: os.getpid() == pid and shutil.rmtree(_scratch_root, ignore_errors=True))
    return _scratch_root


class Executor:
    """Long-lived child running one of the C++ executors: one request line -> one JSON answer line."""

    def __init__(self, exe='fx', flavour='asan', env=None, timeout=60.0):
        self.path = os.path.join(BUILD, flavour, exe)
        self.timeout = timeout
        self.env = dict(os.environ)
        self.env.update({
            'TZ': 'UTC',
            'ASAN_OPTIONS': 'detect_leaks=0:abort_on_error=0:exitcode=99:allocator_may_return_null=1:detect_stack_use_after_return=0',
            'UBSAN_OPTIONS': 'print_stacktrace=1:halt_on_error=1',
            'TSAN_OPTIONS': 'halt_on_error=1:exitcode=98:suppressions=' + os.path.join(VERIF, 'harness', 'tsan.supp'),
            'VERIF_SCRATCH': scratch_root(),
        })
        if env:
            self.env.update(env)
        self.p = None
        self.errf = None
        self.restarts = 0

    def start(self):
        self.errf = tempfile.TemporaryFile(dir=scratch_root())
        self.p = subprocess.Popen([self.path], stdin=subprocess.PIPE, stdout=subprocess.PIPE, stderr=self.errf,
                                  env=self.env, cwd=scratch_root(), bufsize=0)
        self.rbuf = b''

    def stderr_tail(self, n=6000):
        try:
            self.errf.seek(0)
            data = self.errf.read()
            idx = max(data.rfind(b'ERROR: AddressSanitizer'), data.rfind(b'runtime error:'), data.rfind(b'WARNING: ThreadSanitizer'))
            if idx >= 0:
                idx = max(0, data.rfind(b'\n', 0, idx))
                return data[idx:idx + n].decode('latin-1')
            return data[-n:].decode('latin-1')
        except Exception:
            return ''

    def kill(self):
        if self.p:
            try:
                self.p.kill()
                self.p.wait()
            except Exception:
                pass
            self.p = None

    def close(self):
        if self.p:
            try:
                self.p.stdin.write(b'quit\n')
                self.p.stdin.close()
                self.p.wait(timeout=5)
            except Exception:
                self.kill()
            self.p = None

    def _readline(self, deadline):
        import select
        fd = self.p.stdout.fileno()
        while b'\n' not in self.rbuf:
            left = deadline - time.time()
            if left <= 0:
                return None
            r, _, _ = select.select([fd], [], [], min(left, 1.0))
            if r:
                chunk = os.read(fd, 1 << 20)
                if not chunk:
                    return b''
                self.rbuf += chunk
        line, self.rbuf = self.rbuf.split(b'\n', 1)
        return line

    def call(self, line, timeout=None):
        """send one command; returns the parsed answer; raises ExecutorDied (a Violation) with the sanitizer report"""
        if self.p is None or self.p.poll() is not None:
            self.start()
        try:
            self.p.stdin.write(line.encode('latin-1') + b'\n')
            out = self._readline(time.time() + (timeout or self.timeout))
        except (BrokenPipeError, OSError):
            out = b''
        if out is None:
            tail = self.stderr_tail()
            self.kill()
            self.restarts += 1
            raise ExecutorDied('executor hung (>%ss) on: %s\n%s' % (timeout or self.timeout, line[:300], tail))
        if out == b'':
            try:
                self.p.wait(timeout=10)
            except Exception:
                pass
            rc = self.p.returncode
            tail = self.stderr_tail()
            self.kill()
            self.restarts += 1
            raise ExecutorDied('executor died rc=%s on: %s\n%s' % (rc, line[:300], tail))
        ans = json.loads(out.decode('latin-1'))
        if isinstance(ans, dict) and ans.get('error'):
            raise RuntimeError('harness error: %r on %s' % (ans, line[:300]))
        return ans


# ------------------------------------------------------------------------------------------------
class Stats:
    def __init__(self):
        self.evaluations = 0
        self.nontrivial = set()
        self.classes = collections.Counter()
        self.samples = []
        self.excluded = collections.Counter()
        self.extra = {}

    def merge(self, o):
        self.evaluations += o.evaluations
        self.nontrivial |= o.nontrivial
        self.classes.update(o.classes)
        self.excluded.update(o.excluded)
        for s in o.samples:
            if len(self.samples) < 6:
                self.samples.append(s)
        for k, v in o.extra.items():
            if isinstance(v, (int, float)):
                self.extra[k] = self.extra.get(k, 0) + v
            else:
                self.extra[k] = v


def shorten(x, n=400):
    """make a case printable in evidence: long strings are cut"""
    if isinstance(x, str):
        return x if len(x) <= n else x[:n] + '...(%d chars)' % len(x)
    if isinstance(x, list):
        return [shorten(i, n) for i in x[:40]] + (['...(%d items)' % len(x)] if len(x) > 40 else [])
    if isinstance(x, dict):
        return {k: shorten(v, n) for k, v in x.items()}
    return x


def _worker(check_factory, tier, wseed, max_examples, widx, q):
    try:
        signal.signal(signal.SIGINT, signal.SIG_IGN)
        check = check_factory(tier)
        stats = Stats()
        ex = check.make_executor() if hasattr(check, 'make_executor') else Executor()
        state = {'last_fail': None, 'msg': None}

        def body(case):
            if 'hung' in state:
                # an executor that hung has cost its whole time limit (minutes): this worker stops searching and does not shrink - the hanging case is reported as found
                # (it is confirmed by replays like every other failure); Hypothesis re-runs the failing case once more, which re-raises without running it again
                if case_hash(case) == state['hung'][0]:
                    raise Violation(state['hung'][1])
                return
            stats.evaluations += 1
            try:
                info = check.run(case, ex) or {}
            except Violation as v:
                if isinstance(v, ExecutorDied) and 'executor hung' in str(v):
                    state['hung'] = (case_hash(case), str(v))
                state['last_fail'] = case
                state['msg'] = str(v)
                if 'first_fail' not in state:
                    state['first_fail'], state['first_msg'] = case, str(v)
                if getattr(check, 'schedule_sampled', False):
                    # schedule-dependent failures: keep the candidate and go on searching (the first one found may be the hardest to see again);
                    # all candidates are replayed at the end
                    # (the largest workloads are kept: they depend least on how busy the machine happens to be)
                    cands = state.setdefault('candidates', [])
                    cands.append((case, str(v)))
                    cands.sort(key=lambda c: -len(jdump(c[0])))
                    del cands[12:]
                    return
                raise
            for c in info.get('classes', ()):
                stats.classes[c] += 1
            for c in info.get('excluded', ()):
                stats.excluded[c] += 1
            if info.get('nontrivial'):
                k = info.get('key')
                h = case_hash(k if k is not None else case)
                if h not in stats.nontrivial:
                    stats.nontrivial.add(h)
                    if len(stats.samples) < 3:
                        stats.samples.append(shorten(info.get('sample', case)))

        test = given(check.strategy())(body)
        test = hseed(wseed)(test)
        test = settings(max_examples=max_examples, database=None, deadline=None, derandomize=False,
                        report_multiple_bugs=False, print_blob=False,
                        phases=(Phase.generate,) if getattr(check, 'no_shrink', False) else (Phase.generate, Phase.target, Phase.shrink),
                        suppress_health_check=[HealthCheck.too_slow, HealthCheck.data_too_large, HealthCheck.filter_too_much,
                                               HealthCheck.large_base_example])(test)
        fail = None
        try:
            test()
        except Violation as v:
            fail = {'case': state['last_fail'], 'msg': state['msg'] or str(v)}
        except hypothesis.errors.Flaky as f:
            fail = {'case': state['last_fail'], 'msg': 'flaky: ' + (state['msg'] or str(f)), 'flaky': True}
        if fail is None and state.get('candidates'):
            fail = {'case': state['candidates'][0][0], 'msg': state['candidates'][0][1], 'candidates': state['candidates']}
        if fail is not None and 'first_fail' in state:
            fail['first_case'], fail['first_msg'] = state['first_fail'], state['first_msg']     # the case as first found, before shrinking
        if hasattr(check, 'finish'):
            check.finish(stats)
        try:
            ex.close()
        except Exception:
            pass
        q.put((widx, 'ok', stats, fail))
    except BaseException:
        q.put((widx, 'error', traceback.format_exc(), None))


def run_hypothesis(check_factory, tier, seed, max_examples, workers):
    """returns (Stats, failure or None); failure = dict(case=..., msg=...)"""
    ctx = multiprocessing.get_context('fork')
    q = ctx.Queue()
    procs = []
    per = max(1, max_examples // workers)
    for w in range(workers):
        wseed = (seed * 1000003 + w * 7919 + 17) & 0x7fffffff
        p = ctx.Process(target=_worker, args=(check_factory, tier, wseed, per, w, q))
        p.start()
        procs.append(p)
    total = Stats()
    failure = None
    all_fails = []
    errors = []
    for _ in procs:
        widx, status, payload, fail = q.get()
        if status == 'error':
            errors.append(payload)
        else:
            total.merge(payload)
            if fail:
                all_fails.append(fail)
            if fail and (failure is None or len(jdump(fail['case'])) < len(jdump(failure['case']))):
                if failure is not None:
                    fail['candidates'] = (fail.get('candidates') or []) + (failure.get('candidates') or [])
                failure = fail
            elif fail and failure is not None:
                failure['candidates'] = (failure.get('candidates') or []) + (fail.get('candidates') or [])
    for p in procs:
        p.join()
    if errors:
        raise RuntimeError('worker error:\n' + errors[0])
    if failure is not None:
        # what the other workers found: tried in turn when the smallest failure does not reproduce (it may have depended on what its executor had done before)
        failure['alternatives'] = [f for f in all_fails if f is not failure]
    return total, failure


# ------------------------------------------------------------------------------------------------
def load_known(pid):
    p = os.path.join(VERIF, 'known_findings.json')
    if not os.path.exists(p):
        return []
    with open(p) as f:
        return [k for k in json.load(f)['findings'] if k['property'] == pid]


def write_evidence(pid, tier, seed, level, stats, rule, wall, violations, assumptions, extra=None):
    cov = {
        'evaluations': int(stats.evaluations),
        'distinct_nontrivial': len(stats.nontrivial) if isinstance(stats.nontrivial, (set, frozenset)) else int(stats.nontrivial),
        'rule': rule,
        'samples': stats.samples[:6],
        'classes': dict(stats.classes),
        'excluded_by_construction': dict(stats.excluded),
    }
    cov.update(stats.extra)
    if extra:
        cov.update(extra)
    ev = {'property_id': pid, 'tier': tier, 'seed': int(seed), 'level': level, 'coverage': cov,
          'assumptions': assumptions, 'wall_s': round(wall, 2), 'violations': int(violations)}
    os.makedirs(os.path.join(VERIF, 'evidence'), exist_ok=True)
    tmp = os.path.join(VERIF, 'evidence', pid + '.json.tmp')
    with open(tmp, 'w') as f:
        json.dump(ev, f, indent=1, sort_keys=True)
    os.replace(tmp, os.path.join(VERIF, 'evidence', pid + '.json'))
    return ev


def save_replay(pid, case, msg, tag='fail'):
    d = os.path.join(VERIF, 'replays', pid)
    os.makedirs(d, exist_ok=True)
    path = os.path.join(d, '%s-%s.json' % (tag, case_hash(case)))
    with open(path, 'w') as f:
        json.dump({'property': pid, 'case': case, 'message': msg[:4000]}, f, indent=1, sort_keys=True)
    return path


def run_pre_search(check, stats, seed):
    """the enumerated part of a check; an executor that dies inside it (sanitizer report, hang) is a failure of the case {'pre_search': True}"""
    try:
        return check.pre_search(stats, seed)
    except Violation as v:
        return {'case': {'pre_search': True, 'seed': seed}, 'msg': str(v)}


def replay_case(check, case, times=1):
    """run one case outside Hypothesis; returns None if it passes, else the violation text"""
    if isinstance(case, dict) and case.get('setup'):
        return None          # the check object exists, so loading the schemas worked this time
    if isinstance(case, dict) and case.get('pre_search') and hasattr(check, 'pre_search'):
        f = run_pre_search(check, Stats(), case.get('seed', 0))
        return None if f is None else f['msg']
    ex = check.make_executor() if hasattr(check, 'make_executor') else Executor()
    try:
        for _ in range(times):
            try:
                check.run(case, ex)
            except Violation as v:
                return str(v)
        return None
    finally:
        ex.close()


def main_check(check_factory, argv=None):
    """common command line: [--tier quick|thorough] [--replay FILE] ; env VERIF_SEED, VERIF_TIER"""
    import argparse
    ap = argparse.ArgumentParser()
    ap.add_argument('--tier', default=os.environ.get('VERIF_TIER') or 'quick')
    ap.add_argument('--replay')
    ap.add_argument('--workers', type=int, default=0)
    ap.add_argument('--examples', type=int, default=0)
    a = ap.parse_args(argv)
    tier = 'thorough' if a.tier.startswith('t') else 'quick'
    seed = int(os.environ.get('VERIF_SEED') or 0)
    try:
        check = check_factory(tier)
    except ExecutorDied as e:
        # the executor died (sanitizer report, hang) while the check was only loading the compiled schemas: the most basic use of the code under test is broken
        pid = getattr(check_factory, 'id', '?')
        confirmed = True
        for _ in range(2):
            try:
                check_factory(tier)
                confirmed = False
                break
            except ExecutorDied:
                pass
        if not confirmed:
            print('NOTE: the executor died once while loading the schemas and not again (not reported): %s' % str(e)[:2000])
            check = check_factory(tier)
        else:
            path = save_replay(pid, {'setup': True}, str(e), tag='fail-setup')
            print(str(e)[:6000])
            print('VIOLATION property=%s replay=%s' % (pid, path))
            return 1
    pid = check.id
    t0 = time.time()

    if a.replay:
        with open(a.replay) as f:
            doc = json.load(f)
        check.replaying_known = os.path.basename(a.replay).startswith('known-')
        msg = replay_case(check, doc['case'])
        if msg is None:
            print('replay: case passes')
            return 0
        print(msg)
        print('VIOLATION property=%s replay=%s' % (pid, a.replay))
        return 1

    # 1. known findings: replay each open one first
    known_lines = []
    for k in load_known(pid):
        if k.get('status') != 'open':
            continue
        with open(os.path.join(VERIF, k['reproducer'])) as f:
            doc = json.load(f)
        check.replaying_known = True      # the reproducer of a known finding runs without the by-construction exclusion of its class
        msg = replay_case(check, doc['case'])
        check.replaying_known = False
        if msg is not None:
            known_lines.append('KNOWN-FINDING: property=%s %s [%s]' % (pid, k['what'], k['id']))
    for l in known_lines:
        print(l)

    # 2. saved regression replays (shrunk failures of earlier runs / seeded mutants): seconds-long tier
    reg_dir = os.path.join(VERIF, 'replays', pid)
    failure = None
    n_reg = 0
    if os.path.isdir(reg_dir) and not os.environ.get('VERIF_DEV_SKIP_REPLAYS'):      # (development switch: measure what the generators find on their own)
        for fn in sorted(os.listdir(reg_dir)):
            if not fn.startswith('reg-') or not fn.endswith('.json'):
                continue
            with open(os.path.join(reg_dir, fn)) as f:
                doc = json.load(f)
            n_reg += 1
            msg = replay_case(check, doc['case'])
            if msg is not None:
                failure = {'case': doc['case'], 'msg': msg, 'path': os.path.join(reg_dir, fn)}
                break

    # 3. the search
    stats = Stats()
    if failure is None:
        workers = a.workers or check.workers
        examples = a.examples or check.examples
        if hasattr(check, 'pre_search'):
            failure = run_pre_search(check, stats, seed)
        if failure is None:
            stats2, failure = run_hypothesis(check_factory, tier, seed, examples, workers)
            stats.merge(stats2)
    stats.extra['regression_replays'] = n_reg
    stats.extra['known_findings_replayed'] = len(known_lines)
    wall = time.time() - t0
    rc = 0
    if failure is not None:
        # confirm outside Hypothesis before reporting: a deterministic check must fail 3 times out of 3; a check whose thread schedules are sampled by the
        # operating system (schedule_sampled) replays the workload up to 12 times and reports when the violation shows again at least once - there the
        # oracle is exact (it reads what the real code left behind) and only the interleaving varies
        confirm = None
        if getattr(check, 'schedule_sampled', False):
            # shrinking works against a schedule-dependent failure (the smallest workload that failed once fails least often): the case as first found is tried first
            todo = sorted(failure.get('candidates') or [], key=lambda c: -len(jdump(c[0])))[:24] + [(failure.get('first_case'), failure.get('first_msg')), (failure['case'], failure['msg'])]
            for cand, cmsg in todo:
                if cand is None:
                    continue
                for _ in range(6):
                    confirm = replay_case(check_factory(tier), cand)
                    if confirm is not None:
                        failure = dict(failure, case=cand, msg=confirm)
                        break
                if confirm is not None:
                    break
        else:
            for cand in [failure] + sorted(failure.get('alternatives') or [], key=lambda f: len(jdump(f['case']))):
                for _ in range(3):
                    confirm = replay_case(check_factory(tier), cand['case'])
                    if confirm is None:
                        break
                if confirm is not None:
                    failure = dict(failure, case=cand['case'], msg=cand['msg'])
                    break
        if confirm is None and not failure.get('path'):
            print('NOTE: failing case did not reproduce on replay (not reported): %s' % failure['msg'][:5000])
            stats.extra['unreproducible_failures'] = 1
        else:
            path = failure.get('path') or save_replay(pid, failure['case'], failure['msg'])
            print(failure['msg'][:6000])
            print('VIOLATION property=%s replay=%s' % (pid, path))
            rc = 1
    write_evidence(pid, tier, seed, check.level, stats, check.rule, wall, 1 if rc else 0, check.assumptions)
    print('%s %s: %d evaluations, %d distinct non-trivial, %.1fs%s' % (
        pid, tier, stats.evaluations, len(stats.nontrivial), wall, '' if rc == 0 else '  ** VIOLATION **'))
    if stats.classes:
        print('  classes: ' + ', '.join('%s=%d' % kv for kv in sorted(stats.classes.items())))
    if stats.excluded:
        print('  excluded by construction: ' + ', '.join('%s=%d' % kv for kv in sorted(stats.excluded.items())))
    return rc
