// Shared helpers for the verification executors: hex codec, JSON emission, schema registry.
#pragma once
#include <string>
#include <vector>
#include <sstream>
#include <cstdio>
#include <cstdint>
#include <cstring>
#include <functional>
#include <map>
#include <fix8/f8includes.hpp>

namespace vf {

inline std::string hex(const std::string& s)
{
	static const char *d = "0123456789abcdef";
	std::string o; o.reserve(s.size() * 2);
	for (unsigned char c : s) { o += d[c >> 4]; o += d[c & 15]; }
	return o;
}
inline int hv(char c) { return c <= '9' ? c - '0' : (c | 32) - 'a' + 10; }
inline std::string unhex(const std::string& s)
{
	std::string o; o.reserve(s.size() / 2);
	if (s == "-") return o;   // "-" denotes the empty string
	for (size_t i = 0; i + 1 < s.size(); i += 2) o += char(hv(s[i]) << 4 | hv(s[i + 1]));
	return o;
}
inline std::string jstr(const std::string& s)
{
	std::string o("\"");
	for (unsigned char c : s)
	{
		if (c == '"' || c == '\\') { o += '\\'; o += c; }
		else if (c < 0x20 || c >= 0x7f) { char b[8]; snprintf(b, sizeof b, "\\u%04x", c); o += b; }
		else o += c;
	}
	return o + '"';
}

/// Minimal JSON object/array writer
struct J
{
	std::string s; bool first = true; char close;
	explicit J(char open = '{') : close(open == '{' ? '}' : ']') { s += open; }
	void sep() { if (!first) s += ','; first = false; }
	J& k(const char *key) { sep(); s += jstr(key); s += ':'; first = true; return *this; }
	J& raw(const std::string& v) { sep(); s += v; first = false; return *this; }
	J& str(const std::string& v) { return raw(jstr(v)); }
	J& hexs(const std::string& v) { return raw(jstr(hex(v))); }
	J& num(long long v) { return raw(std::to_string(v)); }
	J& unum(unsigned long long v) { return raw(std::to_string(v)); }
	J& dbl(double v) { char b[40]; snprintf(b, sizeof b, "\"%a\"", v); return raw(b); } // hexfloat as string: exact
	J& boolean(bool v) { return raw(v ? "true" : "false"); }
	std::string done() { return s + close; }
};

using Cmd = std::function<std::string(std::istringstream&)>;
std::map<std::string, Cmd>& commands();
struct Reg { Reg(const char *n, Cmd c) { commands()[n] = c; } };

const FIX8::F8MetaCntx& schema(const std::string& name);
std::string scratch_dir();

/// describe the active exception as JSON {"exc":"class","what":"..."}
std::string describe_exception();

}
