// Numeric / date-time / schedule / weekday commands (C08, C09, C24)
#include "common.hpp"
#include <atomic>
#include <memory>
#include <cinttypes>
#include <fix8/f8utils.hpp>

extern "C" size_t modp_dtoa(double value, char* str, int prec);
using namespace FIX8;
namespace vf {
extern std::atomic<bool> vclock_on; extern std::atomic<long long> vclock_ns;

// dtoa <hexfloat:prec>... -> texts (hex) ; via the field print path (Field<fp_type>::print -> modp_dtoa)
static Reg r_dtoa("dtoa", [](std::istringstream& is) {
	std::string a; J out('[');
	while (is >> a)
	{
		const size_t c(a.find(':'));
		const double v(strtod(a.substr(0, c).c_str(), nullptr));
		const int prec(std::stoi(a.substr(c + 1)));
		Field<fp_type, 1> f(v, prec);
		char buf[512] {};
		const size_t n(f.print(buf));
		out.hexs(std::string(buf, n));
	}
	return out.done();
});

// atof <hextext>... -> hexfloats (fast_atof, as the float field string constructor uses)
static Reg r_atof("atof", [](std::istringstream& is) {
	std::string a; J out('[');
	while (is >> a) out.dbl(fast_atof(unhex(a).c_str()));
	return out.done();
});

static Reg r_itoa("itoa", [](std::istringstream& is) {
	long long v; J out('[');
	while (is >> v) { char buf[64] {}; const size_t n(itoa<int>(static_cast<int>(v), buf, 10)); out.hexs(std::string(buf, n)); }
	return out.done();
});

static Reg r_atoi("atoi", [](std::istringstream& is) {
	std::string a; J out('[');
	while (is >> a) out.num(fast_atoi<int>(unhex(a).c_str()));
	return out.done();
});

// intsweep <start> <count> <stride>: in-process exhaustive check of itoa / fast_atoi against snprintf (reference)
static Reg r_intsweep("intsweep", [](std::istringstream& is) {
	long long start, count, stride; is >> start >> count >> stride;
	unsigned long long bad(0), done(0);
	long long firstbad(0);
	std::string firsttxt;
	for (long long i(0); i < count; ++i)
	{
		const long long lv(start + i * stride);
		if (lv > 2147483647LL) break;
		const int v(static_cast<int>(lv));
		char ref[16], got[16];
		const int rn(snprintf(ref, sizeof ref, "%d", v));
		const size_t gn(itoa<int>(v, got, 10));
		const bool ok(gn == static_cast<size_t>(rn) && !memcmp(ref, got, rn) && fast_atoi<int>(ref) == v);
		++done;
		if (!ok && !bad++) { firstbad = lv; firsttxt.assign(got, gn); }
	}
	J j; j.k("done").unum(done); j.k("bad").unum(bad); j.k("first").num(firstbad); j.k("firsttxt").hexs(firsttxt);
	return j.done();
});

// tsfmt <ticks>... : every date/time field rendering of the instant
static Reg r_tsfmt("tsfmt", [](std::istringstream& is) {
	long long t; J out('[');
	while (is >> t)
	{
		const Tickval tv(static_cast<Tickval::ticks>(t));
		char b[64];
		J j;
		auto put = [&](const char *k, TimeIndicator ind) { const size_t n(date_time_format(tv, b, ind)); j.k(k).str(std::string(b, n)); };
		put("with_ms", _with_ms); put("sec_only", _sec_only); put("date_only", _date_only); put("short_date", _short_date_only);
		put("time_with_ms", _time_with_ms); put("time_only", _time_only);
		{ Field<UTCTimestamp, 1> f(tv); j.k("f_ts").str(std::string(b, f.print(b))); }
		{ Field<UTCTimeOnly, 1> f; f.set(tv); j.k("f_to").str(std::string(b, f.print(b))); }
		{ Field<UTCDateOnly, 1> f; f.set(tv); j.k("f_do").str(std::string(b, f.print(b))); }
		{ Field<LocalMktDate, 1> f; f.set(tv); j.k("f_lm").str(std::string(b, f.print(b))); }
		out.raw(j.done());
	}
	return out.done();
});

// tsparse <kind> <hextext>...: ticks after parsing through the field string constructors
static Reg r_tsparse("tsparse", [](std::istringstream& is) {
	std::string kind, a; is >> kind; J out('[');
	while (is >> a)
	{
		const std::string txt(unhex(a));
		char b[64];
		J e('[');
		if (kind == "ts") { Field<UTCTimestamp, 1> f(txt); e.num(f.get().get_ticks()); e.str(std::string(b, f.print(b))); }
		else if (kind == "to") { Field<UTCTimeOnly, 1> f(txt); e.num(f.get().get_ticks()); e.str(std::string(b, f.print(b))); }
		else if (kind == "do") { Field<UTCDateOnly, 1> f(txt); e.num(f.get().get_ticks()); e.str(std::string(b, f.print(b))); }
		else if (kind == "lm") { Field<LocalMktDate, 1> f(txt); e.num(f.get().get_ticks()); e.str(std::string(b, f.print(b))); }
		else if (kind == "my") { Field<MonthYear, 1> f(txt); e.num(f.get().get_ticks()); e.str(std::string(b, f.print(b))); }
		out.raw(e.done());
	}
	return out.done();
});

// logts <ticks> <dplaces>... pairs: GetTimeAsStringMS(tv, dplaces, use_gm=true)
static Reg r_logts("logts", [](std::istringstream& is) {
	long long t; unsigned d; J out('[');
	while (is >> t >> d)
	{
		const Tickval tv(static_cast<Tickval::ticks>(t));
		std::string r;
		GetTimeAsStringMS(r, &tv, d, true);
		out.str(r);
	}
	return out.done();
});

static Reg r_dow("dow", [](std::istringstream& is) {
	std::string a; J out('[');
	while (is >> a) out.num(decode_dow(unhex(a)));
	return out.done();
});

// sched <start_ticks> <end_ticks> <utc_off_min> <start_day> <end_day> <t0_sec> <step_sec> <nsteps> [xml 0/1]
// returns two strings of 0/1: the state threaded through test(prev) like activation_service does, and the stateless test(false)
static std::string run_schedule(const Schedule& sch, long long t0, long long step, long long n)
{
	std::string threaded, stateless;
	bool prev(false);
	vclock_on = true;
	for (long long i(0); i < n; ++i)
	{
		vclock_ns = (t0 + i * step) * 1000000000LL;
		prev = sch.test(prev);
		threaded += prev ? '1' : '0';
		stateless += sch.test(false) ? '1' : '0';
	}
	vclock_on = false;
	J j;
	j.k("threaded").str(threaded);
	j.k("stateless").str(stateless);
	j.k("start_day").num(sch._start_day); j.k("end_day").num(sch._end_day); j.k("utc").num(sch._utc_offset);
	j.k("start").num(sch._start.get_ticks()); j.k("end").num(sch._end.get_ticks());
	return j.done();
}

static Reg r_sched("sched", [](std::istringstream& is) {
	long long st, en, t0, step, n; int off, sd, ed;
	is >> st >> en >> off >> sd >> ed >> t0 >> step >> n;
	const Schedule sch(Tickval(static_cast<Tickval::ticks>(st)), Tickval(static_cast<Tickval::ticks>(en)), Tickval(), off, sd, ed);
	return run_schedule(sch, t0, step, n);
});

// schedxml <hex of login element attributes> <t0> <step> <n>: the same through Configuration::create_login_schedule
static Reg r_schedxml("schedxml", [](std::istringstream& is) {
	std::string attrs; long long t0, step, n; is >> attrs >> t0 >> step >> n;
	std::istringstream xml("<?xml version='1.0' encoding='ISO-8859-1'?>\n<fix8>\n<session name='S1' role='initiator' fix_version='4200' active='true' "
		"ip='127.0.0.1' port='11001' sender_comp_id='A' target_comp_id='B' login='L1'/>\n<login name='L1' " + unhex(attrs) + " />\n</fix8>\n");
	J j;
	try
	{
		Configuration cfg(xml, true);
		const Schedule sch(cfg.create_login_schedule(cfg.get_session(0)));
		if (!sch.is_valid()) { j.k("invalid").boolean(true); return j.done(); }
		return run_schedule(sch, t0, step, n);
	}
	catch (...) { j.k("x").raw(describe_exception()); }
	return j.done();
});

}

namespace vf {
static std::string xml_dump(const XmlElement *e, int depth = 0)
{
	J j;
	j.k("tag").hexs(e->GetTag());
	j.k("seq").num(e->GetSequence());
	J at('[');
	for (auto it(e->abegin()); it != e->aend(); ++it) { J p('['); p.hexs(it->first); p.hexs(it->second); at.raw(p.done()); }
	j.k("attrs").raw(at.done());
	if (e->GetVal()) j.k("val").hexs(*e->GetVal());
	J kids('[');
	if (depth < 200)
		for (auto it(e->begin()); it != e->end(); ++it) kids.raw(xml_dump(*it, depth + 1));
	j.k("kids").raw(kids.done());
	j.k("cnt").num(e->GetChildCnt());
	return j.done();
}

// xmlparse <flags: 1=noextensions> <hexdoc> [find: <hexpath> <hexattr|-> <hexval|-> <delimiter char code>]...
static Reg r_xmlparse("xmlparse", [](std::istringstream& is) {
	int flags; std::string doc; is >> flags >> doc;
	XmlElement::XmlFlags fl;
	if (flags & 1) fl.set(XmlElement::noextensions);
	XmlElement::set_flags(fl);
	std::istringstream in(unhex(doc));
	J j;
	try
	{
		std::unique_ptr<XmlElement> root(XmlElement::Factory(in, nullptr));
		if (!root) { j.k("null").boolean(true); return j.done(); }
		j.k("tree").raw(xml_dump(root.get()));
		j.k("errors").num(root->GetErrorCnt());
		std::string path, an, av;
		J finds('[');
		int dl;
		while (is >> path >> an >> av >> dl)
		{
			const char delim(static_cast<char>(dl));
			const std::string p(unhex(path)), a(unhex(an)), v(unhex(av));
			const bool filt(an != "-");
			XmlElement::XmlSet set;
			const int n(root->find(p, set, filt ? &a : nullptr, filt ? &v : nullptr, delim));
			const XmlElement *first(root->find(p, filt ? &a : nullptr, filt ? &v : nullptr, delim));
			J f;
			J s('[');
			for (const auto *e : set) s.num(e->GetSequence());
			f.k("set").raw(s.done());
			f.k("n").num(n);
			f.k("first").num(first ? first->GetSequence() : -1);
			finds.raw(f.done());
		}
		j.k("finds").raw(finds.done());
	}
	catch (...) { j.k("x").raw(describe_exception()); }
	return j.done();
});
}
