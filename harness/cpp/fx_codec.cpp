// Codec commands: schema dump, generic metadata-driven message build / encode / decode / clone / copy / move.
#include "common.hpp"
#include <functional>
#include <memory>

using namespace FIX8;
namespace vf {

using FT = FieldTrait;

//-----------------------------------------------------------------------------------------------
// schema model dump (from the compiled trait tables)
static std::string dump_traits(const MessageBase *mb, int depth);

static std::string dump_trait(const MessageBase *mb, const FieldTrait& t, int depth)
{
	J j;
	j.k("tag").num(t._fnum);
	j.k("ft").num(t._ftype);
	j.k("pos").num(t._pos);
	j.k("comp").num(t._component);
	j.k("man").boolean(t._field_traits.has(FT::mandatory));
	j.k("grp").boolean(t._field_traits.has(FT::group));
	j.k("bits").num(t._field_traits.get());
	if (t._field_traits.has(FT::group) && depth < 12)
	{
		GroupBase *gb(mb->find_group(t._fnum));
		std::unique_ptr<GroupBase> owner;
		if (!gb)
		{
			owner.reset(mb->create_nested_group(t._fnum));
			gb = owner.get();
		}
		if (gb)
		{
			std::unique_ptr<MessageBase> el(gb->create_group(true));
			j.k("gname").str(el->get_msgtype());
			j.k("sub").raw(dump_traits(el.get(), depth + 1));
		}
		else
			j.k("sub").raw("null");
	}
	return j.done();
}

static std::string dump_traits(const MessageBase *mb, int depth)
{
	J a('[');
	const Presence& p(mb->get_fp().get_presence());
	for (Presence::const_iterator it(p.begin()); it != p.end(); ++it)
		a.raw(dump_trait(mb, *it, depth));
	return a.done();
}

static std::string realm_json(const RealmBase *r)
{
	J j;
	j.k("kind").str(r->_dtype == RealmBase::dt_set ? "set" : "range");
	j.k("ft").num(r->_ftype);
	j.k("sz").num(r->_sz);
	J vals('['), descs('[');
	const int n(r->_dtype == RealmBase::dt_set ? r->_sz : 2);
	for (int i(0); i < n; ++i)
	{
		if (FT::is_int(r->_ftype)) vals.num(r->get_rlm_val<int>(i));
		else if (FT::is_char(r->_ftype)) vals.num((unsigned char)r->get_rlm_val<char>(i));
		else if (FT::is_float(r->_ftype)) vals.dbl(r->get_rlm_val<fp_type>(i));
		else vals.hexs(r->get_rlm_val<f8String>(i));
	}
	if (r->_descriptions)
		for (int i(0); i < r->_sz; ++i)
			descs.str(r->_descriptions[i] ? r->_descriptions[i] : "");
	j.k("vals").raw(vals.done());
	j.k("descs").raw(descs.done());
	return j.done();
}

static Reg r_schema("schema", [](std::istringstream& is) {
	std::string name; is >> name;
	const F8MetaCntx& ctx(schema(name));
	J j;
	j.k("begin").str(ctx._beginStr);
	j.k("version").num(ctx._version);
	{
		J n('[');
		for (int i(0); i <= FT::ft_end_string; ++i) { std::string t; n.str(FieldTrait::get_type_string(FT::FieldType(i), t)); }
		j.k("ftnames").raw(n.done());
	}
	J fields;
	for (auto it(ctx._be.begin()); it != ctx._be.end(); ++it)
	{
		J f;
		f.k("name").str(it->_value._name);
		f.k("fnum").num(it->_value._fnum);
		if (it->_value._rlm)
			f.k("realm").raw(realm_json(it->_value._rlm));
		fields.k(std::to_string(it->_key).c_str()).raw(f.done());
	}
	j.k("fields").raw(fields.done());
	J msgs;
	for (auto it(ctx._bme.begin()); it != ctx._bme.end(); ++it)
	{
		J m;
		m.k("name").str(it->_value._name);
		std::unique_ptr<Message> msg(it->_value._create._do(true));
		const std::string key(it->_key);
		if (key == "header" || key == "trailer")
		{
			// header/trailer entries create a MessageBase reinterpret_cast to Message: only the base part is valid
			MessageBase *mb(reinterpret_cast<MessageBase *>(msg.release()));
			m.k("traits").raw(dump_traits(mb, 0));
			delete mb;
		}
		else
		{
			m.k("admin").boolean(msg->is_admin());
			m.k("traits").raw(dump_traits(msg.get(), 0));
		}
		msgs.k(it->_key).raw(m.done());
	}
	j.k("msgs").raw(msgs.done());
	return j.done();
});

//-----------------------------------------------------------------------------------------------
// typed field access through the library's own layout-compatible cast idiom (see MessageBase::has_group_count)
static std::string field_text(const BaseField *bf, FT::FieldType ft)
{
	size_t need(128);
	if (FT::is_string(ft) && ft != FT::ft_UTCTimestamp && ft != FT::ft_UTCTimeOnly && ft != FT::ft_UTCDateOnly
		&& ft != FT::ft_LocalMktDate && ft != FT::ft_MonthYear && ft != FT::ft_TZTimeOnly && ft != FT::ft_TZTimestamp)
		need += static_cast<const Field<f8String, 0> *>(bf)->get().size();
	std::string buf(need, '\0');
	const size_t n(bf->print(&buf[0]));
	buf.resize(n);
	return buf;
}

static void field_value(J& j, const BaseField *bf, FT::FieldType ft)
{
	if (FT::is_int(ft)) j.k("v").num(static_cast<const Field<int, 0> *>(bf)->get());
	else if (ft == FT::ft_Boolean) j.k("v").num(static_cast<const Field<Boolean, 0> *>(bf)->get() ? 1 : 0);
	else if (FT::is_char(ft)) j.k("v").num((unsigned char)static_cast<const Field<char, 0> *>(bf)->get());
	else if (FT::is_float(ft)) j.k("v").dbl(static_cast<const Field<fp_type, 0> *>(bf)->get());
	else if (ft == FT::ft_UTCTimestamp || ft == FT::ft_UTCTimeOnly || ft == FT::ft_UTCDateOnly || ft == FT::ft_LocalMktDate)
		j.k("v").num(static_cast<const Field<UTCTimestamp, 0> *>(bf)->get().get_ticks());
	else if (ft == FT::ft_MonthYear) j.k("v").num(static_cast<const Field<MonthYear, 0> *>(bf)->get().get_ticks());
	else if (ft == FT::ft_TZTimeOnly || ft == FT::ft_TZTimestamp) j.k("v").raw("null");
	else j.k("v").hexs(static_cast<const Field<f8String, 0> *>(bf)->get());
}

std::string dump_mb(const MessageBase *mb, int depth = 0)
{
	J a('[');
	const Presence& p(mb->get_fp().get_presence());
	for (const auto& pp : mb->get_positions())
	{
		const BaseField *bf(pp.second);
		J j;
		j.k("t").num(bf->get_tag());
		j.k("p").num(pp.first);
		Presence::const_iterator it(p.find(bf->get_tag()));
		const FT::FieldType ft(it != p.end() ? it->_ftype : FT::ft_untyped);
		if (it != p.end())
		{
			field_value(j, bf, ft);
			j.k("x").hexs(field_text(bf, ft));
			j.k("ri").num(bf->get_rlm_idx());
			if (it->_field_traits.has(FT::group) && depth < 32)
			{
				const GroupBase *gb(mb->find_group(bf->get_tag()));
				if (gb)
				{
					J g('[');
					for (unsigned i(0); i < gb->size(); ++i)
						g.raw(dump_mb(gb->get_element(i), depth + 1));
					j.k("g").raw(g.done());
				}
			}
		}
		else
			j.k("illegal").boolean(true);
		a.raw(j.done());
	}
	return a.done();
}

std::string dump_msg(const Message *m)
{
	J j;
	j.k("type").str(m->get_msgtype());
	j.k("h").raw(dump_mb(m->Header()));
	j.k("b").raw(dump_mb(m));
	j.k("t").raw(dump_mb(m->Trailer()));
	J u;
	u.k("h").hexs(m->Header()->get_unknown());
	u.k("b").hexs(m->get_unknown());
	u.k("t").hexs(m->Trailer()->get_unknown());
	j.k("unk").raw(u.done());
	return j.done();
}

//-----------------------------------------------------------------------------------------------
static BaseField *make_field(const F8MetaCntx& ctx, unsigned short tag, const std::string& kv)
{
	const char kind(kv.at(0));
	const std::string rest(kv.size() > 2 ? kv.substr(2) : std::string());
	const BaseEntry *be(ctx.find_be(tag));
	if (!be) throw std::runtime_error("spec: no such field " + std::to_string(tag));
	auto mk = [&](const char *txt) {
		BaseField *bf(be->_create._do(txt, be->_rlm, -1));
		// the typed setters below rely on the field class: refuse a kind that does not match it
		const FT::FieldType ut(bf->get_underlying_type());
		const bool ok(kind == 'i' ? ut == FT::ft_int : kind == 'c' || kind == 'b' ? ut == FT::ft_char : kind == 'f' ? ut == FT::ft_float
			: kind == 's' ? ut == FT::ft_data : ut == FT::ft_string);
		if (!ok) { delete bf; throw std::runtime_error("spec: kind does not match field class for tag " + std::to_string(tag)); }
		return bf;
	};
	switch (kind)
	{
	case 'i': { BaseField *bf(mk("0")); static_cast<Field<int, 0> *>(bf)->set(std::stoi(rest)); return bf; }
	case 'c': { BaseField *bf(mk("x")); static_cast<Field<char, 0> *>(bf)->set(char(std::stoi(rest))); return bf; }
	case 'b': { BaseField *bf(mk("N")); static_cast<Field<Boolean, 0> *>(bf)->set(rest == "1"); return bf; }
	case 'f':
		{
			const size_t c(rest.find(':'));
			BaseField *bf(mk("0"));
			static_cast<Field<fp_type, 0> *>(bf)->set(strtod(rest.substr(0, c).c_str(), nullptr));
			if (c != std::string::npos)
				static_cast<Field<fp_type, 0> *>(bf)->set_precision(std::stoi(rest.substr(c + 1)));
			return bf;
		}
	case 's':
		{
			const std::string v(unhex(rest));
			BaseField *bf(mk(v.c_str()));
			if (v.find('\0') != std::string::npos)   // content with NUL bytes (data fields): set by length, the text constructor stops at the NUL
				static_cast<Field<f8String, 0> *>(bf)->set(v);
			return bf;
		}
	case 't': case 'o': case 'd':
		{
			BaseField *bf(mk(kind == 't' ? "19700101-00:00:00.000" : kind == 'o' ? "00:00:00.000" : "19700101"));
			static_cast<Field<UTCTimestamp, 0> *>(bf)->set(Tickval(static_cast<Tickval::ticks>(std::stoll(rest))));
			return bf;
		}
	case 'm':
		{
			const size_t c(rest.find(':'));
			BaseField *bf(mk(unhex(rest.substr(0, c)).c_str()));   // text fixes the 6/8 digit form
			static_cast<Field<MonthYear, 0> *>(bf)->set(Tickval(static_cast<Tickval::ticks>(std::stoll(rest.substr(c + 1)))));
			return bf;
		}
	default: throw std::runtime_error("spec: bad kind");
	}
}

/// build a message from the token stream; tokens: M type | H | B | T | F tag kind:value | G tag | E | e | g
Message *build_message(const F8MetaCntx& ctx, std::istringstream& is)
{
	std::string tok;
	std::unique_ptr<Message> msg;
	std::vector<MessageBase *> tstack;
	std::vector<GroupBase *> gstack;
	std::vector<std::unique_ptr<MessageBase>> pending;
	while (is >> tok)
	{
		if (tok == "M")
		{
			std::string t; is >> t;
			msg.reset(ctx.create_msg(unhex(t).c_str(), true));
			if (!msg) throw std::runtime_error("spec: no such msgtype");
			tstack.assign(1, msg.get());
		}
		else if (tok == "H") tstack.assign(1, msg->Header());
		else if (tok == "B") tstack.assign(1, msg.get());
		else if (tok == "T") tstack.assign(1, msg->Trailer());
		else if (tok == "F")
		{
			unsigned tag; std::string kv; is >> tag >> kv;
			std::unique_ptr<BaseField> bf(make_field(ctx, tag, kv));
			tstack.back()->add_field(bf.get());
			bf.release();
		}
		else if (tok == "G")
		{
			unsigned tag; is >> tag;
			GroupBase *gb(tstack.back()->find_group(tag));
			if (!gb) gb = tstack.back()->find_add_group(tag, nullptr);
			if (!gb) throw std::runtime_error("spec: no such group " + std::to_string(tag));
			gstack.push_back(gb);
		}
		else if (tok == "E")
		{
			pending.emplace_back(gstack.back()->create_group(true));
			tstack.push_back(pending.back().get());
		}
		else if (tok == "e")
		{
			tstack.pop_back();
			*gstack.back() += pending.back().release();
			pending.pop_back();
		}
		else if (tok == "g") gstack.pop_back();
		else if (tok == ";") break;
		else throw std::runtime_error("spec: bad token " + tok);
	}
	if (!msg) throw std::runtime_error("spec: empty");
	return msg.release();
}

static void enc_into(J& j, const char *key, const Message *m)
{
	try
	{
		f8String out;
		m->encode(out);
		j.k(key).hexs(out);
	}
	catch (...) { j.k(key).raw(describe_exception()); }
}

// build <schema> <ops,comma-separated> <tokens...>
static Reg r_build("build", [](std::istringstream& is) {
	std::string name, opss; is >> name >> opss;
	const F8MetaCntx& ctx(schema(name));
	std::unique_ptr<Message> msg(build_message(ctx, is));
	J j;
	auto has = [&](const char *o) { return (',' + opss + ',').find(std::string(",") + o + ",") != std::string::npos; };
	if (has("print")) { std::ostringstream os; os << *msg; j.k("print").hexs(os.str()); }
	if (has("dump")) j.k("dump").raw(dump_msg(msg.get()));
	std::unique_ptr<Message> cl, cp, mv;
	if (has("clone"))
	{
		try { cl.reset(msg->clone()); } catch (...) { j.k("clone").raw(describe_exception()); }
	}
	if (has("copy"))
	{
		try
		{
			cp.reset(ctx.create_msg(msg->get_msgtype().c_str(), true));
			J c('[');
			c.num(msg->copy_legal(cp.get()));
			c.num(msg->Header()->copy_legal(cp->Header()));
			c.num(msg->Trailer()->copy_legal(cp->Trailer()));
			j.k("copy_n").raw(c.done());
		}
		catch (...) { j.k("copy").raw(describe_exception()); cp.reset(); }
	}
	if (has("move"))
	{
		// moving consumes the source: work on a clone-free second build? no - move last, after the original was encoded
	}
	f8String enc;
	bool encok(false);
	if (has("enc"))
	{
		try { msg->encode(enc); encok = true; j.k("enc").hexs(enc); }
		catch (...) { j.k("enc").raw(describe_exception()); }
	}
	if (cl) enc_into(j, "clone", cl.get());
	if (cp) enc_into(j, "copy", cp.get());
	// reset:<seed>: decode the encoding, replace about a third of the fields (every part, group elements included) by copies of themselves through add_field, encode
	{
		const size_t at(("," + opss + ",").find(",reset:"));
		if (encok && at != std::string::npos)
		{
			unsigned long long st(strtoull(("," + opss).c_str() + at + 7, nullptr, 10) * 2654435761ull + 12345);
			auto pick = [&st] { st = st * 6364136223846793005ull + 1442695040888963407ull; return (st >> 33) % 3 == 0; };
			try
			{
				std::unique_ptr<Message> d(Message::factory(ctx, enc, false, false));
				unsigned n(0);
				std::function<void(MessageBase *, int)> walk = [&](MessageBase *mb, int depth) {
					std::vector<BaseField *> sel;
					const Presence& p(mb->get_fp().get_presence());
					for (const auto& pp : mb->get_positions())
					{
						const unsigned short tag(pp.second->get_tag());
						if (tag == 8 || tag == 9 || tag == 35 || tag == 10) continue;
						Presence::const_iterator it(p.find(tag));
						if (it == p.end()) continue;
						if (it->_field_traits.has(FieldTrait::group))
						{
							if (GroupBase *gb = mb->find_group(tag))
								for (unsigned i(0); i < gb->size() && depth < 32; ++i) walk(gb->get_element(i), depth + 1);
							continue;
						}
						if (pick()) sel.push_back(pp.second);
					}
					for (BaseField *bf : sel) { mb->add_field(bf->copy()); ++n; }
				};
				walk(d->Header(), 0); walk(d.get(), 0); walk(d->Trailer(), 0);
				j.k("reset_n").num(n);
				enc_into(j, "reset", d.get());
			}
			catch (...) { j.k("reset").raw(describe_exception()); }
		}
	}
	// the same transfers with a DECODED message as the source (shallow-created by the factory: e.g. a zero count field has no group object behind it)
	if (encok && has("dclone"))
	{
		try
		{
			std::unique_ptr<Message> d(Message::factory(ctx, enc, false, false));
			std::unique_ptr<Message> c2(d->clone());
			enc_into(j, "dclone", c2.get());
		}
		catch (...) { j.k("dclone").raw(describe_exception()); }
	}
	if (encok && has("dcopy"))
	{
		try
		{
			std::unique_ptr<Message> d(Message::factory(ctx, enc, false, false));
			std::unique_ptr<Message> t(ctx.create_msg(d->get_msgtype().c_str(), true));
			d->copy_legal(t.get());
			d->Header()->copy_legal(t->Header());
			d->Trailer()->copy_legal(t->Trailer());
			enc_into(j, "dcopy", t.get());
		}
		catch (...) { j.k("dcopy").raw(describe_exception()); }
	}
	if (encok && has("dmove"))
	{
		try
		{
			std::unique_ptr<Message> d(Message::factory(ctx, enc, false, false));
			std::unique_ptr<Message> t(ctx.create_msg(d->get_msgtype().c_str(), true));
			d->move_legal(t.get());
			d->Header()->move_legal(t->Header());
			d->Trailer()->move_legal(t->Trailer());
			d.reset();
			enc_into(j, "dmove", t.get());
		}
		catch (...) { j.k("dmove").raw(describe_exception()); }
	}
	if (encok && has("dec"))
	{
		try
		{
			std::unique_ptr<Message> d(Message::factory(ctx, enc, false, false));
			j.k("dec").raw(dump_msg(d.get()));
			if (has("decprint")) { std::ostringstream os; os << *d; j.k("decprint").hexs(os.str()); }
			if (has("reenc")) enc_into(j, "reenc", d.get());
		}
		catch (...) { j.k("dec").raw(describe_exception()); }
	}
	return j.done();
});

// movebuild <schema> <tokens...>: build, move_legal all three sections into a fresh message, destroy the source, encode the target
static Reg r_move("movebuild", [](std::istringstream& is) {
	std::string name; is >> name;
	const F8MetaCntx& ctx(schema(name));
	std::unique_ptr<Message> msg(build_message(ctx, is));
	J j;
	try
	{
		std::unique_ptr<Message> mv(ctx.create_msg(msg->get_msgtype().c_str(), true));
		J c('[');
		c.num(msg->move_legal(mv.get()));
		c.num(msg->Header()->move_legal(mv->Header()));
		c.num(msg->Trailer()->move_legal(mv->Trailer()));
		j.k("move_n").raw(c.done());
		msg.reset();    // source may be destroyed
		enc_into(j, "move", mv.get());
	}
	catch (...) { j.k("move").raw(describe_exception()); }
	return j.done();
});

// decode <schema> <nochk 0/1> <permissive 0/1> <hex> [ops]
static Reg r_decode("decode", [](std::istringstream& is) {
	std::string name, hx, opss; int nochk, perm; is >> name >> nochk >> perm >> hx >> opss;
	const F8MetaCntx& ctx(schema(name));
	const f8String from(unhex(hx));
	J j;
	try
	{
		std::unique_ptr<Message> d(Message::factory(ctx, from, nochk != 0, perm != 0));
		j.k("ok").boolean(true);
		j.k("dump").raw(dump_msg(d.get()));
		if (opss.find("print") != std::string::npos) { std::ostringstream os; os << *d; j.k("print").hexs(os.str()); }
		if (opss.find("reenc") != std::string::npos) enc_into(j, "reenc", d.get());
	}
	catch (...) { j.k("ok").boolean(false); j.k("x").raw(describe_exception()); }
	return j.done();
});

}

namespace vf {
// field <schema> <tag> <kind:value>... : realm interrogation of fields created with the schema's realm attached
static Reg r_field("field", [](std::istringstream& is) {
	std::string name; unsigned tag; is >> name >> tag;
	const F8MetaCntx& ctx(schema(name));
	const BaseEntry *be(ctx.find_be(tag));
	J a('[');
	std::string kv;
	while (is >> kv)
	{
		std::unique_ptr<BaseField> bf(make_field(ctx, tag, kv));
		J j;
		const int ri(bf->get_rlm_idx());
		j.k("ri").num(ri);
		const RealmBase *r(bf->get_realm());
		bool valid(true);
		switch (bf->get_underlying_type())
		{
		case FT::ft_int: valid = static_cast<Field<int, 0> *>(bf.get())->is_valid(); break;
		case FT::ft_char:
			if (kv[0] == 'c') valid = static_cast<Field<char, 0> *>(bf.get())->is_valid();
			break;
		case FT::ft_float: valid = static_cast<Field<fp_type, 0> *>(bf.get())->is_valid(); break;
		case FT::ft_data: valid = static_cast<Field<f8String, 0> *>(bf.get())->is_valid(); break;
		default: break;
		}
		j.k("valid").boolean(valid);
		j.k("hasrlm").boolean(r != nullptr);
		if (r && ri >= 0 && ri < r->_sz && r->_descriptions)
			j.k("desc").str(r->_descriptions[ri] ? r->_descriptions[ri] : "");
		if (r && ri >= r->_sz) j.k("oob").boolean(true);
		a.raw(j.done());
	}
	(void)be;
	return a.done();
});
}
