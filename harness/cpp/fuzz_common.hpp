// shared by libFuzzer targets: counters dumped to $VERIF_FUZZ_STATS.<pid> at exit and before trapping
#pragma once
#include <cstdio>
#include <cstdlib>
#include <cstdint>
#include <string>
#include <unordered_set>
#include <unistd.h>

namespace vfz {
struct Counters
{
	unsigned long long execs = 0, nontrivial = 0, accepted = 0;
	std::unordered_set<uint64_t> distinct;
	std::string sample[3];
	int nsample = 0;
};
inline Counters& C() { static Counters *c = new Counters; return *c; }   // never destroyed: flush runs from atexit
inline uint64_t fnv(const uint8_t *d, size_t n) { uint64_t h(1469598103934665603ULL); for (size_t i(0); i < n; ++i) { h ^= d[i]; h *= 1099511628211ULL; } return h; }
inline void flush()
{
	const char *p(getenv("VERIF_FUZZ_STATS"));
	if (!p) return;
	char fn[512]; snprintf(fn, sizeof fn, "%s.%d", p, (int)getpid());
	FILE *f(fopen(fn, "w"));
	if (!f) return;
	fprintf(f, "{\"execs\":%llu,\"nontrivial\":%llu,\"accepted\":%llu,\"distinct\":%zu,\"samples\":[", C().execs, C().nontrivial, C().accepted, C().distinct.size());
	for (int i(0); i < C().nsample; ++i) fprintf(f, "%s\"%s\"", i ? "," : "", C().sample[i].c_str());
	fprintf(f, "]}\n");
	fclose(f);
}
inline void note_nontrivial(const uint8_t *d, size_t n)
{
	++C().nontrivial;
	if (C().distinct.size() < 4000000) C().distinct.insert(fnv(d, n));
	if (C().nsample < 3 && n < 300)
	{
		static const char *hx = "0123456789abcdef";
		std::string s;
		for (size_t i(0); i < n; ++i) { s += hx[d[i] >> 4]; s += hx[d[i] & 15]; }
		C().sample[C().nsample++] = s;
	}
}
extern "C" void __sanitizer_set_death_callback(void (*)(void));
// libFuzzer owns the sanitizer death callback, so the counters are also flushed periodically
inline void tick() { if ((++C().execs & 0x1fff) == 0) flush(); }
struct AtExit { AtExit() { atexit(flush); __sanitizer_set_death_callback(flush); } };
[[noreturn]] inline void fail(const char *msg) { fprintf(stderr, "ORACLE-FAIL: %s\n", msg); flush(); __builtin_trap(); }
}
