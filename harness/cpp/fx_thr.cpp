// Thread / file-system commands: loggers (C28), rotation (C29), the FastFlow queue (C30), the timer (C31).
//
//   logrun <levels,csv of d i w e f|-> <nprod> <stop_after_n|-1> <script;script;...>
//        script = string of level letters, one line per letter; line text = P<producer>L<index>;  y = yield;  h = hold: the producer's next submit is
//        stalled inside the queue push between claiming its slot and publishing it (yield point 3 of uMPMC_Ptr_Queue::push) until stop() has been entered
//        (plus 1 ms; at most 200 ms) - an injected schedule: a line accepted from another producer behind a claimed but unpublished slot
//        every producer thread submits its lines through FileLogger::send; stop() is called by the main thread after all producers
//        have finished (stop_after_n = -1) or as soon as the total number of returned sends reaches stop_after_n (while producers run);
//        stop_after_n = -3: no producer threads - the creating thread submits all scripts itself right behind the constructor and stops at once
//        -> {"ret":[[r,before]...per producer], "file":hex, "stop_s":seconds}     before: the send returned before stop() was entered
//   logrot <log|store> <rotnum> <append 0|1> <force 0|1> <twice 0|1> <name,content;...>   files to create first (name relative, content hex)
//        -> {"files":{name:hex...},"ok":bool}
#include "common.hpp"
#include <thread>
#include <atomic>
#include <mutex>
#include <fstream>
#include <dirent.h>
#include <sys/stat.h>
#include <unistd.h>

using namespace FIX8;
namespace vf {

extern std::atomic<bool> vclock_on;

static std::string slurp(const std::string& path)
{
	std::ifstream f(path, std::ios::binary);
	std::ostringstream o; o << f.rdbuf();
	return o.str();
}

static void rm_rf(const std::string& dir)
{
	const std::string cmd("rm -rf '" + dir + "'");
	if (system(cmd.c_str())) {}
}

static Logger::Level lev_of(char c) { return c == 'd' ? Logger::Debug : c == 'i' ? Logger::Info : c == 'w' ? Logger::Warn : c == 'e' ? Logger::Error : Logger::Fatal; }

static thread_local bool t_hold_next(false);
static std::atomic<bool> g_log_stop_entered(false);
static std::atomic<int> g_log_parked(0);
static void log_hold_hook(int tag, unsigned long)
{
	if (tag != 3 || !t_hold_next)
		return;
	t_hold_next = false;
	++g_log_parked;
	struct timespec t0, t;
	clock_gettime(CLOCK_MONOTONIC, &t0);
	for (;;)
	{
		if (g_log_stop_entered.load()) { usleep(1000); return; }
		clock_gettime(CLOCK_MONOTONIC, &t);
		if ((t.tv_sec - t0.tv_sec) * 1000 + (t.tv_nsec - t0.tv_nsec) / 1000000 > 200) return;
		usleep(50);
	}
}

static Reg r_logrun("logrun", [](std::istringstream& is) {
	static unsigned serial(0);
	vclock_on = false;     // the logger thread sleeps in real time while its queue is empty
	std::string levs, scripts; unsigned nprod(0); long stop_after(-1);
	is >> levs >> nprod >> stop_after >> scripts;
	Logger::Levels levels;
	if (levs != "-") for (char c : levs) if (c != ',') levels.set(lev_of(c));
	std::vector<std::string> sc;
	{ std::istringstream s(scripts); std::string t; while (std::getline(s, t, ';')) sc.push_back(t); }
	const std::string path(scratch_dir() + "/lg" + std::to_string(++serial) + ".log");
	unlink(path.c_str());
	std::vector<std::vector<std::pair<int, int>>> rets(sc.size());
	double stop_s(0);
	g_log_stop_entered = false;
	g_log_parked = 0;
	const bool holds(scripts.find('h') != std::string::npos);
	// producers whose script begins with a hold go first: the others start submitting once those are parked inside the push (or after 50 ms), so that
	// their lines are accepted behind a claimed but unpublished slot
	int lead_holds(0);
	for (auto& t : sc) if (!t.empty() && t[0] == 'h') ++lead_holds;
	if (holds) ff::verif_hook() = log_hold_hook;
	// The producer threads outlive the logger: they park after their last submit and are released once the logger object is gone.  A thread that exits while
	// the logger thread is giving back the last LogElement it allocated races inside the bundled FastFlow allocator (the exiting thread's key destructor walks
	// the allocator that the freeing thread deletes: heap-use-after-free, seen under load).  That is outside what C28 states (see DESIGN 10.14), so the
	// harness does not provoke it.
	std::atomic<int> go(0);
	std::atomic<long> returned(0);
	std::atomic<unsigned> finished(0);
	std::atomic<bool> stop_entered(false), release(false);
	std::vector<std::thread> th;
	std::string out;
	{
		FileLogger lg(path, Logger::LogFlags() << Logger::sequence << Logger::thread << Logger::level, levels, " ", Logger::LogPositions(), 0);
		if (stop_after == -3)
		{
			// inline mode: the creating thread submits every script itself right behind the constructor and stops at once - the logger's own thread may not
			// have run yet
			for (size_t p(0); p < sc.size(); ++p)
			{
				for (size_t k(0); k < sc[p].size(); ++k)
				{
					if (sc[p][k] == 'y' || sc[p][k] == 'h') { rets[p].emplace_back(-1, -1); continue; }
					const bool r(lg.send("P" + std::to_string(p) + "L" + std::to_string(k), lev_of(sc[p][k])));
					++returned;
					rets[p].emplace_back(r ? 1 : 0, 1);
				}
				++finished;
			}
		}
		else
		for (size_t p(0); p < sc.size(); ++p)
			th.emplace_back([&, p] {
				while (!go.load()) sched_yield();
				if (lead_holds && !(!sc[p].empty() && sc[p][0] == 'h'))
				{
					struct timespec t0, t;
					clock_gettime(CLOCK_MONOTONIC, &t0);
					while (g_log_parked.load() < lead_holds)
					{
						clock_gettime(CLOCK_MONOTONIC, &t);
						if ((t.tv_sec - t0.tv_sec) * 1000 + (t.tv_nsec - t0.tv_nsec) / 1000000 > 50) break;
						sched_yield();
					}
				}
				for (size_t k(0); k < sc[p].size(); ++k)
				{
					if (sc[p][k] == 'y') { sched_yield(); rets[p].emplace_back(-1, -1); continue; }
					if (sc[p][k] == 'h') { t_hold_next = true; rets[p].emplace_back(-1, -1); continue; }
					const bool r(lg.send("P" + std::to_string(p) + "L" + std::to_string(k), lev_of(sc[p][k])));
					const bool before(!stop_entered.load());
					++returned;
					rets[p].emplace_back(r ? 1 : 0, before ? 1 : 0);
				}
				++finished;
				while (!release.load()) usleep(200);
			});
		go = 1;
		if (stop_after >= 0)
			while (returned.load() < stop_after) sched_yield();
		else
			while (finished.load() < sc.size()) sched_yield();
		struct timespec t0, t1;
		clock_gettime(CLOCK_MONOTONIC, &t0);
		stop_entered = true;
		g_log_stop_entered = true;
		lg.stop();
		clock_gettime(CLOCK_MONOTONIC, &t1);
		stop_s = (t1.tv_sec - t0.tv_sec) + (t1.tv_nsec - t0.tv_nsec) / 1e9;
		// the file is read here: after stop() has returned and before the logger is destroyed
		J j;
		j.k("file").hexs(slurp(path));
		while (finished.load() < sc.size()) usleep(100);
		J rr('[');
		for (auto& v : rets) { J a('['); for (auto& pr : v) { J e('['); e.num(pr.first).num(pr.second); a.raw(e.done()); } rr.raw(a.done()); }
		j.k("ret").raw(rr.done());
		char b[32]; snprintf(b, sizeof b, "%.6f", stop_s);
		j.k("stop_s").raw(b);
		j.k("file_after_destruction").raw("null");
		out = j.done();
	}
	release = true;
	for (auto& t : th) t.join();
	unlink(path.c_str());
	if (holds) ff::verif_hook() = nullptr;
	return out;
});

//-----------------------------------------------------------------------------------------------
static void list_dir(const std::string& dir, const std::string& rel, J& files)
{
	DIR *d(opendir((dir + "/" + rel).c_str()));
	if (!d) return;
	while (dirent *e = readdir(d))
	{
		const std::string n(e->d_name);
		if (n == "." || n == "..") continue;
		const std::string r(rel.empty() ? n : rel + "/" + n);
		struct stat st;
		if (stat((dir + "/" + r).c_str(), &st)) continue;
		if (S_ISDIR(st.st_mode)) list_dir(dir, r, files);
		else files.k(r.c_str()).hexs(slurp(dir + "/" + r));
	}
	closedir(d);
}

static Reg r_logrot("logrot", [](std::istringstream& is) {
	static unsigned serial(0);
	vclock_on = false;
	std::string kind, pre; unsigned rotnum(0); int append(0), force(0), twice(0);
	is >> kind >> rotnum >> append >> force >> twice >> pre;
	const std::string dir(scratch_dir() + "/rot" + std::to_string(++serial));
	rm_rf(dir);
	mkdir(dir.c_str(), 0700);
	if (pre != "-")
	{
		std::istringstream s(pre); std::string t;
		while (std::getline(s, t, ';'))
		{
			const size_t c(t.find(','));
			std::ofstream f(dir + "/" + t.substr(0, c), std::ios::binary);
			f << unhex(t.substr(c + 1));
		}
	}
	bool ok(true);
	J j;
	try
	{
		if (kind == "log")
		{
			Logger::LogFlags fl; fl << Logger::sequence;
			if (append) fl << Logger::append;
			FileLogger lg(dir + "/name", fl, Logger::Levels(Logger::All), " ", Logger::LogPositions(), rotnum);   // the constructor rotates once
			if (twice) ok = lg.rotate(force != 0);
			lg.stop();
		}
		else
		{
			FilePersister fp(rotnum);
			ok = fp.initialise(dir, "name", true);   // purge with rotation
		}
	}
	catch (...) { j.k("exc").raw(describe_exception()); ok = false; }
	J files;
	list_dir(dir, "", files);
	j.k("files").raw(files.done());
	j.k("ok").boolean(ok);
	rm_rf(dir);
	return j.done();
});

}

//=================================================================================================
// C30: the bundled unbounded MPMC queue
//   ffq ctl <nprod> <ncons> <pushes per producer,csv> <pop attempts per consumer,csv> <schedule,csv|->
//        real threads serialised by a baton; at every FIX8_VERIF_POINT inside uMPMC_Ptr_Queue::push/pop the running thread appends (thread,tag,value) to the
//        event log and hands the baton to the thread named by the next schedule element (fair fallback when a thread only spins)
//        -> {"ev":[[thread,tag,value]...],"pops":[[consumer,ok,element]...],"drain":[elements...]}
//   ffq stress <nprod> <ncons> <n per producer>       free-running, no hook installed
//        -> {"ok":bool,"what":"...","popped":n}
#include <fix8/ff/mpmc/MPMCqueues.hpp>
namespace vf {

struct Baton
{
	std::atomic<int> cur{-1};
	std::vector<int> sched; size_t pos = 0;
	std::vector<char> done;
	struct Ev { int th, tag; unsigned long val; };
	std::vector<Ev> ev;
	int nthreads = 0, spins = 0, last = -1;
	std::atomic<bool> active{false};
};
static Baton *g_baton(nullptr);
static thread_local int tl_me(-1);

static void baton_pass(int to)
{
	Baton& b(*g_baton);
	b.cur.store(to);
	if (to != tl_me)
		while (b.cur.load() != tl_me) sched_yield();
}

static int baton_next_unfinished(int from)
{
	Baton& b(*g_baton);
	for (int i(1); i <= b.nthreads; ++i)
	{
		const int c((from + i) % b.nthreads);
		if (!b.done[c]) return c;
	}
	return -1;
}

static void ffq_hook(int tag, unsigned long val)
{
	if (tl_me < 0 || !g_baton || !g_baton->active.load()) return;
	Baton& b(*g_baton);
	b.ev.push_back({tl_me, tag, val});
	// rounds of a retry loop without progress by the same thread (reading points 1,2,11,12,13 are neither progress nor a retry)
	const bool retry(tag == 4 || tag == 5 || tag == 16 || tag == 17), progress(tag == 3 || tag == 6 || tag == 7 || tag == 14 || tag == 15 || tag == 18 || tag == 19);
	if (b.last != tl_me || progress) b.spins = 0;
	else if (retry) ++b.spins;
	b.last = tl_me;
	int want(b.pos < b.sched.size() ? b.sched[b.pos++] % b.nthreads : tl_me);
	if (b.spins > 50) { want = baton_next_unfinished(tl_me); b.spins = 0; }    // fairness: a thread that only spins lets the others run
	if (want < 0 || b.done[want]) want = b.done[tl_me] ? baton_next_unfinished(tl_me) : tl_me;
	if (want >= 0 && want != tl_me) baton_pass(want);
}

static Reg r_ffq("ffq", [](std::istringstream& is) {
	std::string mode; is >> mode;
	vclock_on = false;
	auto csv = [](const std::string& s) { std::vector<int> v; if (s == "-") return v; std::istringstream i(s); std::string t; while (std::getline(i, t, ',')) v.push_back(atoi(t.c_str())); return v; };
	if (mode == "ctl")
	{
		unsigned np(0), nc(0); std::string pushes, pops, sched;
		is >> np >> nc >> pushes >> pops >> sched;
		const std::vector<int> pu(csv(pushes)), po(csv(pops));
		ff::uMPMC_Ptr_Queue q; q.init();
		Baton b;
		b.sched = csv(sched);
		b.nthreads = np + nc;
		b.done.assign(b.nthreads, 0);
		g_baton = &b;
		ff::verif_hook() = ffq_hook;
		std::vector<std::vector<std::pair<int, unsigned long>>> popres(nc);
		std::vector<std::thread> th;
		auto body = [&](int me) {
			tl_me = me;
			while (b.cur.load() != me) sched_yield();
			if (me < static_cast<int>(np))
				for (int k(0); k < pu[me]; ++k)
					q.push(reinterpret_cast<void *>(static_cast<uintptr_t>((me + 1) * 1000 + k + 1)));
			else
				for (int k(0); k < po[me - np]; ++k)
				{
					void *d(nullptr);
					const bool ok(q.pop(&d));
					popres[me - np].emplace_back(ok ? 1 : 0, reinterpret_cast<uintptr_t>(d));
				}
			b.done[me] = 1;
			const int nxt(baton_next_unfinished(me));
			b.cur.store(nxt >= 0 ? nxt : -2);
			tl_me = -1;
		};
		for (int t(0); t < b.nthreads; ++t) th.emplace_back(body, t);
		b.active = true;
		b.cur.store(b.sched.empty() ? 0 : b.sched[0] % b.nthreads);
		for (auto& t : th) t.join();
		b.active = false;
		ff::verif_hook() = nullptr;
		g_baton = nullptr;
		J j;
		J ev('[');
		for (auto& e : b.ev) { J a('['); a.num(e.th).num(e.tag).unum(e.val); ev.raw(a.done()); }
		j.k("ev").raw(ev.done());
		J pp('[');
		for (unsigned c(0); c < nc; ++c) for (auto& r : popres[c]) { J a('['); a.num(c).num(r.first).unum(r.second); pp.raw(a.done()); }
		j.k("pops").raw(pp.done());
		J dr('[');
		void *d(nullptr);
		while (q.pop(&d)) dr.unum(reinterpret_cast<uintptr_t>(d));
		j.k("drain").raw(dr.done());
		return j.done();
	}
	// stress: free-running threads, no hook
	unsigned np(0), nc(0); long n(0);
	is >> np >> nc >> n;
	ff::uMPMC_Ptr_Queue q; q.init();
	std::atomic<long> popped(0);
	const long total(static_cast<long>(np) * n);
	std::atomic<int> go(0);
	std::vector<std::string> errs(nc);
	std::vector<std::vector<unsigned char>> seen(np, std::vector<unsigned char>(n, 0));
	std::mutex seen_m;
	std::vector<std::thread> th;
	for (unsigned p(0); p < np; ++p)
		th.emplace_back([&, p] {
			while (!go.load()) sched_yield();
			for (long k(0); k < n; ++k) q.push(reinterpret_cast<void *>(static_cast<uintptr_t>((static_cast<unsigned long>(p) << 32) | static_cast<unsigned long>(k + 1))));
		});
	for (unsigned c(0); c < nc; ++c)
		th.emplace_back([&, c] {
			std::vector<long> lastk(np, 0);
			std::vector<std::pair<unsigned, long>> mine;
			while (!go.load()) sched_yield();
			while (popped.load() < total)
			{
				void *d(nullptr);
				if (!q.pop(&d)) { sched_yield(); continue; }
				++popped;
				const uintptr_t v(reinterpret_cast<uintptr_t>(d));
				const unsigned p(v >> 32); const long k(v & 0xffffffffu);
				if (p >= np || k < 1 || k > n) { if (errs[c].empty()) errs[c] = "popped a pointer that was never pushed"; continue; }
				if (k <= lastk[p] && errs[c].empty()) errs[c] = "consumer saw element " + std::to_string(k) + " of producer " + std::to_string(p) + " after element " + std::to_string(lastk[p]);
				lastk[p] = k;
				mine.emplace_back(p, k);
			}
			std::lock_guard<std::mutex> g(seen_m);
			for (auto& m : mine) if (++seen[m.first][m.second - 1] > 1 && errs[c].empty()) errs[c] = "element popped twice";
		});
	go = 1;
	for (auto& t : th) t.join();
	std::string what;
	for (auto& e : errs) if (!e.empty() && what.empty()) what = e;
	if (what.empty())
		for (unsigned p(0); p < np && what.empty(); ++p)
			for (long k(0); k < n; ++k)
				if (seen[p][k] != 1) { what = "element " + std::to_string(k + 1) + " of producer " + std::to_string(p) + " popped " + std::to_string(seen[p][k]) + " times"; break; }
	void *d(nullptr);
	if (what.empty() && q.pop(&d)) what = "queue not empty after all elements were popped";
	J j; j.k("ok").boolean(what.empty()); j.k("what").str(what); j.k("popped").num(popped.load());
	return j.done();
});

//=================================================================================================
// C31: Timer on the virtual clock
//   timer <script>   script = ';' separated steps:  s<i>,<delay_ms>,<repeat 0|1>,<results e.g. 110>  schedule event i (i < 12)
//                                                    a<ms>   advance the virtual clock and wait until the timer thread is idle
//                                                    c       clear()
//        -> {"fired":[[event,virtual_ms_at_run,step]...],"cleared":[n...]}
extern std::atomic<long long> vclock_ns;
struct TimerMonitor
{
	std::mutex m;
	std::vector<std::array<long long, 3>> fired;
	std::string results[12];
	size_t runs[12] = {};
	int step = 0;
	std::atomic<long> tid_slot{-1};
	std::atomic<int> gate{-1};            // event whose next run blocks inside its callback until released
	std::atomic<bool> inside_gate{false}, release_gate{false};
	template<int N> bool cb()
	{
		bool ret;
		{
			std::lock_guard<std::mutex> g(m);
			fired.push_back({N, vclock_ns.load() / 1000000, step});
			const std::string& r(results[N]);
			const size_t k(runs[N]++);
			ret = k < r.size() ? r[k] == '1' : false;
		}
		if (gate.load() == N)
		{
			gate = -1;
			inside_gate = true;
			for (int i(0); i < 2000000 && !release_gate.load(); ++i) usleep(10);
			inside_gate = false;
		}
		return ret;
	}
};
std::atomic<long long> *sleep_counter_of_self();
struct TimerProbe : TimerMonitor
{
	std::atomic<std::atomic<long long> *> counter{nullptr};   // the timer thread's own sleep counter (valid while that thread lives)
	bool probe() { counter = sleep_counter_of_self(); return false; }
};

static Reg r_timer("timer", [](std::istringstream& is) {
	std::string script; is >> script;
	long long T0(1700000000LL * 1000000000LL);
	if (!script.empty() && script[0] == 'o')       // o<ms>; : the origin lies that many milliseconds behind a whole second (due times then straddle a second boundary)
	{
		const size_t sc(script.find(';'));
		T0 += atoll(script.c_str() + 1) * 1000000LL;
		script = sc == std::string::npos ? std::string() : script.substr(sc + 1);
	}
	vclock_ns = T0;
	vclock_on = true;
	TimerProbe mon;
	using TE = TimerEvent<TimerProbe>;
	typedef bool (TimerProbe::*CB)();
	static const CB cbs[12] = { &TimerMonitor::cb<0>, &TimerMonitor::cb<1>, &TimerMonitor::cb<2>, &TimerMonitor::cb<3>, &TimerMonitor::cb<4>, &TimerMonitor::cb<5>,
		&TimerMonitor::cb<6>, &TimerMonitor::cb<7>, &TimerMonitor::cb<8>, &TimerMonitor::cb<9>, &TimerMonitor::cb<10>, &TimerMonitor::cb<11> };
	J cleared('[');
	std::string err;
	{
		Timer<TimerProbe> timer(mon, 10);
		timer.start();
		// find the timer thread: a probe event 1 ms ahead, clock advanced by 1 ms
		timer.schedule(TE(&TimerProbe::probe), 1);
		vclock_ns = T0 + 1000000;
		for (int i(0); i < 500000 && !mon.counter.load(); ++i) usleep(10);
		if (!mon.counter.load()) err = "timer thread did not run the probe event";
		auto quiesce = [&] {
			std::atomic<long long> *c(mon.counter.load());
			if (!c) return;
			const long long base(c->load());
			for (int i(0); i < 4000000 && c->load() < base + 3; ++i) usleep(5);
			if (c->load() < base + 3) err = "timer thread did not go round its loop within 20 s";
		};
		quiesce();
		std::istringstream s(script); std::string t;
		while (err.empty() && std::getline(s, t, ';'))
		{
			{ std::lock_guard<std::mutex> g(mon.m); ++mon.step; }
			if (t[0] == 's')
			{
				int i(0), delay(0), rep(0); char res[64] = "";
				sscanf(t.c_str() + 1, "%d,%d,%d,%63s", &i, &delay, &rep, res);
				{ std::lock_guard<std::mutex> g(mon.m); mon.results[i] = res; mon.runs[i] = 0; }
				timer.schedule(TE(cbs[i], rep != 0), delay);
			}
			else if (t[0] == 'a')
			{
				vclock_ns = vclock_ns.load() + atoll(t.c_str() + 1) * 1000000LL;
				quiesce();
			}
			else if (t[0] == 'c')
			{
				cleared.unum(timer.clear());
				quiesce();
			}
			else if (t[0] == 'G')
			{
				// clear() while a callback is running: event i is gated, the clock is advanced to its due time, clear() is called from a second thread
				// while the callback is held, then the callback is released
				int i(0); long long ms(0);
				sscanf(t.c_str() + 1, "%d,%lld", &i, &ms);
				mon.release_gate = false;
				mon.gate = i;
				vclock_ns = vclock_ns.load() + ms * 1000000LL;
				for (int w(0); w < 500000 && !mon.inside_gate.load(); ++w) usleep(10);
				if (!mon.inside_gate.load()) { err = "gated event did not fire"; mon.gate = -1; break; }
				size_t n(0);
				std::thread clr([&] { n = timer.clear(); });
				usleep(30000);
				mon.release_gate = true;
				clr.join();
				cleared.unum(n);
				quiesce();
			}
		}
		timer.stop();
	}
	J j;
	J f('[');
	for (auto& e : mon.fired) { J a('['); a.num(e[0]).num(e[1] - T0 / 1000000).num(e[2]); f.raw(a.done()); }
	j.k("fired").raw(f.done());
	j.k("cleared").raw(cleared.done());
	if (!err.empty()) j.k("error").str(err);
	return j.done();
});

}
