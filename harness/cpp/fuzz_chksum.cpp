// C07: calc_chksum == byte sum mod 256 over exactly [offset, offset+len) (or the remainder when len == -1); reads nothing outside.
#include "fuzz_common.hpp"
#include <fuzzer/FuzzedDataProvider.h>
#include <fix8/f8includes.hpp>
#include <cstring>

using namespace FIX8;
static vfz::AtExit reg;

extern "C" int LLVMFuzzerTestOneInput(const uint8_t *data, size_t size)
{
	vfz::tick();
	FuzzedDataProvider fdp(data, size);
	const unsigned mode(fdp.ConsumeIntegralInRange<unsigned>(0, 5));
	const unsigned misalign(fdp.ConsumeIntegralInRange<unsigned>(0, 7));
	const unsigned rep(fdp.ConsumeIntegralInRange<unsigned>(1, 300));
	unsigned offsel(fdp.ConsumeIntegral<uint16_t>()), lensel(fdp.ConsumeIntegral<uint16_t>());
	std::string seed(fdp.ConsumeRemainingBytesAsString());
	// buffer: the remaining bytes, optionally repeated to reach the >256 / >1024 paths
	std::string content;
	if (mode >= 3 && !seed.empty()) { for (unsigned i(0); i < rep && content.size() < (mode == 5 ? 70000u : 3000u); ++i) content += seed; }
	else content = seed;
	const size_t sz(content.size());
	// exactly sized heap block at a generated misalignment: ASan sees any byte read outside the allocation
	char *block(static_cast<char *>(malloc(sz + misalign + 1)));
	char *buf(block + misalign);
	// the block is sz + misalign + 1 long; shrink the usable part so that buf[sz] is already outside: use a second exact block
	free(block);
	block = static_cast<char *>(malloc(sz + misalign));
	buf = block + misalign;
	if (sz) memcpy(buf, content.data(), sz);
	const unsigned offset(sz ? offsel % (sz + 1) : 0);
	const size_t rem(sz - offset);
	const bool use_rem((lensel & 3) == 0);
	const int len(use_rem ? -1 : static_cast<int>((lensel >> 2) % (rem + 1)));
	const size_t n(use_rem ? rem : static_cast<size_t>(len));
	unsigned want(0);
	for (size_t i(0); i < n; ++i) want += static_cast<unsigned char>(buf[offset + i]);
	want %= 256;
	const unsigned got(Message::calc_chksum(buf, sz, offset, len));
	bool hi(false);
	for (size_t i(0); i < n && !hi; ++i) hi = static_cast<unsigned char>(buf[offset + i]) >= 0x80;
	if (n > 256 || (offset > 0 && use_rem) || hi)
		vfz::note_nontrivial(data, size);
	if (got != want)
	{
		char msg[200];
		snprintf(msg, sizeof msg, "calc_chksum(buf, sz=%zu, offset=%u, len=%d) = %u, byte sum mod 256 = %u", sz, offset, len, got, want);
		free(block);
		vfz::fail(msg);
	}
	// f8String overload
	if (mode == 1)
	{
		// the string's spare capacity behind its terminator holds 0xAA bytes: a read past the end changes the sum whatever the heap held before
		// (the result is then a function of the input alone and a saved artifact replays)
		f8String s(sz + 96, '\xAA');
		if (sz) memcpy(&s[0], buf, sz);
		s.resize(sz);
		const unsigned got2(Message::calc_chksum(s, offset, len));
		if (got2 != want) { free(block); vfz::fail("calc_chksum(f8String) differs from byte sum"); }
	}
	free(block);
	return 0;
}
