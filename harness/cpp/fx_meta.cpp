// Metadata lookup commands (C12): generated tables, reverse tables, trait sets, presorted_set state machine.
#include "common.hpp"
#include <memory>

using namespace FIX8;
namespace vf {

// findbe <schema>: every t in 0..65535 for which find_be(t) hits, with the entry's name and fnum
static Reg r_findbe("findbe", [](std::istringstream& is) {
	std::string name; is >> name;
	const F8MetaCntx& ctx(schema(name));
	J a('[');
	for (unsigned t(0); t < 65536; ++t)
	{
		const BaseEntry *be(ctx.find_be(t));
		if (be) { J e('['); e.num(t); e.str(be->_name); e.num(be->_fnum); a.raw(e.done()); }
	}
	return a.done();
});

// bme <schema> <hexkey>...: find_ptr on the message table
static Reg r_bme("bme", [](std::istringstream& is) {
	std::string name, k; is >> name;
	const F8MetaCntx& ctx(schema(name));
	J a('[');
	while (is >> k)
	{
		const std::string key(unhex(k));
		const BaseMsgEntry *b(ctx._bme.find_ptr(key.c_str()));
		const auto *pp(ctx._bme.find_pair_ptr(key.c_str()));
		J e('[');
		if (b) { e.str(b->_name); e.str(pp ? pp->_key : "<nopair>"); }
		a.raw(e.done());
	}
	return a.done();
});

// reverse <schema> <hexname>...: reverse_find_be / reverse_find_fnum / reverse_find_bme
static Reg r_reverse("reverse", [](std::istringstream& is) {
	std::string name, k; is >> name;
	const F8MetaCntx& ctx(schema(name));
	J a('[');
	while (is >> k)
	{
		const std::string key(unhex(k));
		const BaseEntry *be(ctx.reverse_find_be(key.c_str()));
		const BaseMsgEntry *bm(ctx.reverse_find_bme(key.c_str()));
		J e;
		e.k("fnum").num(ctx.reverse_find_fnum(key.c_str()));
		if (be) { e.k("be_name").str(be->_name); e.k("be_fnum").num(be->_fnum); }
		if (bm) e.k("bme_name").str(bm->_name);
		a.raw(e.done());
	}
	return a.done();
});

// traitscan <schema> <hexmsgtype|header|trailer> [group tag path...]: has/getPos/is_mandatory/is_group for all t in 0..65535
static Reg r_traitscan("traitscan", [](std::istringstream& is) {
	std::string name, mt; is >> name >> mt;
	const F8MetaCntx& ctx(schema(name));
	const std::string key(mt == "header" || mt == "trailer" ? mt : unhex(mt));
	std::unique_ptr<MessageBase> root;
	{
		Message *m(ctx.create_msg(key.c_str(), true));
		if (!m) throw std::runtime_error("no such msgtype");
		root.reset(reinterpret_cast<MessageBase *>(m));   // header/trailer entries are MessageBase objects
	}
	MessageBase *cur(root.get());
	std::vector<std::unique_ptr<MessageBase>> keep;
	std::vector<std::unique_ptr<GroupBase>> keepg;
	unsigned gt;
	while (is >> gt)
	{
		GroupBase *gb(cur->find_group(gt));
		if (!gb) { keepg.emplace_back(cur->create_nested_group(gt)); gb = keepg.back().get(); }
		if (!gb) throw std::runtime_error("no such group");
		keep.emplace_back(gb->create_group(true));
		cur = keep.back().get();
	}
	const FieldTraits& fp(cur->get_fp());
	J a('[');
	unsigned hits(0);
	for (unsigned t(0); t < 65536; ++t)
	{
		const bool has(fp.has(t));
		Presence::const_iterator itr(fp.get_presence().end());
		const bool has2(fp.has(t, itr));
		const bool legal(cur->is_legal(t));
		if (has || has2 || legal || fp.getPos(t) || fp.is_mandatory(t) || fp.is_group(t) || fp.get(t, FieldTrait::present))
		{
			J e('[');
			e.num(t); e.num(has); e.num(has2); e.num(legal); e.num(fp.getPos(t)); e.num(fp.is_mandatory(t)); e.num(fp.is_group(t));
			e.num(fp.getComp(t));
			a.raw(e.done());
			++hits;
		}
	}
	return a.done();
});

//-----------------------------------------------------------------------------------------------
// presorted_set state machine. kind "g": generic template over a small struct; kind "f": FieldTrait specialisation
struct KV { unsigned _k; unsigned _v; KV(unsigned k = 0, unsigned v = 0) : _k(k), _v(v) {} };
struct KVLess { bool operator()(const KV& a, const KV& b) const { return a._k < b._k; } };
using GSet = presorted_set<unsigned, KV, KVLess>;
using FSet = Presence;

static std::unique_ptr<GSet> gset, gset_copy;
static std::unique_ptr<FSet> fset, fset_copy;

template<typename S, typename T, typename KeyOf>
static std::string ps_dump(const S& s, KeyOf keyof)
{
	J a('[');
	for (auto it(s.begin()); it != s.end(); ++it) a.num(keyof(*it));
	J j;
	j.k("size").num(s.size());
	j.k("empty").boolean(s.empty());
	j.k("keys").raw(a.done());
	return j.done();
}

// ps <g|f> <op> args...
static Reg r_ps("ps", [](std::istringstream& is) {
	std::string kind, op; is >> kind >> op;
	std::vector<unsigned> args; unsigned v;
	while (is >> v) args.push_back(v);
	J j;
	if (kind == "g")
	{
		auto keyof = [](const KV& x) { return x._k; };
		if (op == "new")        // new <reserve> <mode 0:empty 1:from sorted array> keys...
		{
			std::vector<KV> init;
			for (size_t i(2); i < args.size(); ++i) init.emplace_back(args[i], args[i] * 7 + 1);
			if (args[1]) gset.reset(new GSet(init.data(), init.size(), args[0]));
			else gset.reset(new GSet(static_cast<size_t>(0), static_cast<size_t>(args[0])));
		}
		else if (op == "ins") { KV e(args[0], args[0] * 7 + 1); auto r(gset->insert(&e)); j.k("ok").boolean(r.second); }
		else if (op == "insrange")
		{
			std::vector<KV> init;
			for (unsigned a : args) init.emplace_back(a, a * 7 + 1);
			gset->insert(init.data(), init.data() + init.size());
		}
		else if (op == "find")
		{
			const GSet& cs(*gset);
			bool answer(false);
			auto it1(gset->find(args[0]));                 // iterator find(K)
			auto it2(cs.find(args[0]));                    // const_iterator find(K) const
			auto it3(gset->find(KV(args[0]), answer));     // find(T, bool&)
			bool answer2(false);
			gset->find(args[0], answer2);
			J f('[');
			f.num(it1 != gset->end()); f.num(it1 != gset->end() ? (long long)it1->_k : -1); f.num(it1 != gset->end() ? (long long)it1->_v : -1);
			f.num(it2 != cs.end()); f.num(answer); f.num(answer2);
			f.num(it3 - gset->begin());
			j.k("find").raw(f.done());
		}
		else if (op == "at") { auto it(gset->at(args[0])); j.k("at").num(it != gset->end() ? (long long)it->_k : -1); }
		else if (op == "clear") gset->clear();
		else if (op == "copy") { gset_copy.reset(new GSet(*gset)); j.k("copy").raw(ps_dump<GSet, KV>(*gset_copy, keyof)); }
		j.k("st").raw(ps_dump<GSet, KV>(*gset, keyof));
	}
	else
	{
		auto keyof = [](const FieldTrait& x) { return x._fnum; };
		auto mk = [](unsigned k) { return FieldTrait(k, FieldTrait::ft_int, k % 1000 + 1, k % 2 == 0, false, 0); };
		if (op == "new")
		{
			std::vector<FieldTrait> init;
			for (size_t i(2); i < args.size(); ++i) init.push_back(mk(args[i]));
			if (args[1]) fset.reset(new FSet(init.data(), init.size(), static_cast<size_t>(args[0])));
			else fset.reset(new FSet(static_cast<size_t>(0), static_cast<size_t>(args[0])));
		}
		else if (op == "ins") { FieldTrait e(mk(args[0])); auto r(fset->insert(&e)); j.k("ok").boolean(r.second); }
		else if (op == "insrange")
		{
			std::vector<FieldTrait> init;
			for (unsigned a : args) init.push_back(mk(a));
			fset->insert(init.data(), init.data() + init.size());
		}
		else if (op == "find")
		{
			const FSet& cs(*fset);
			bool answer(false), answer2(false);
			auto it1(fset->find(static_cast<unsigned short>(args[0])));
			auto it2(cs.find(static_cast<unsigned short>(args[0])));
			auto it3(fset->find(FieldTrait(args[0]), answer));
			fset->find(static_cast<unsigned short>(args[0]), answer2);
			auto it4(cs.find(FieldTrait(args[0])));
			J f('[');
			f.num(it1 != fset->end()); f.num(it1 != fset->end() ? (long long)it1->_fnum : -1); f.num(it1 != fset->end() ? (long long)it1->_pos : -1);
			f.num(it2 != cs.end()); f.num(answer); f.num(answer2);
			f.num(it3 - fset->begin());
			f.num(it4 != cs.end());
			j.k("find").raw(f.done());
		}
		else if (op == "at") { auto it(fset->at(args[0])); j.k("at").num(it != fset->end() ? (long long)it->_fnum : -1); }
		else if (op == "clear") fset->clear();
		else if (op == "copy") { fset_copy.reset(new FSet(*fset)); j.k("copy").raw(ps_dump<FSet, FieldTrait>(*fset_copy, keyof)); }
		j.k("st").raw(ps_dump<FSet, FieldTrait>(*fset, keyof));
	}
	return j.done();
});

}
