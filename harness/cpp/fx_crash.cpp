// C27: crash injection for the file persister at system-call granularity.
//   crash <ops...> | <post ops...>        ops:  P<seq>:<hex|->  put message     C<s>:<t>  put control record
// The executable defines write() and lseek() itself (they forward to the raw system calls), so every completed write/seek on the
// persister's two descriptors is a crash point.  A dry run counts the points N of the pre-crash operations; then, for every
// k = 1..N, a forked child runs the operations on a fresh store and _exit()s right after its k-th completed write/seek.  The parent
// reopens the files, reads everything back, performs the post-crash operations, reopens again and reads back again.
//   -> {"n":N,"runs":[{"k":k,"done":ops completed,"open":bool,"r1":{seq:[ok,hex]},"c1":[ok,s,t],"post":[bool..],"open2":bool,"r2":{..},"c2":[..]}...]}
#include "common.hpp"
#include <atomic>
#include <unistd.h>
#include <fcntl.h>
#include <sys/syscall.h>
#include <sys/wait.h>
#include <signal.h>

namespace vf {
static int g_fd_floor(1 << 30);
static long g_count(0), g_target(-1);
static bool g_armed(false);
static inline void crash_point(int fd)
{
	if (g_armed && fd >= g_fd_floor && ++g_count == g_target)
		_exit(0);
}
}

extern "C" ssize_t write(int fd, const void *buf, size_t n)
{
	const ssize_t r(syscall(SYS_write, fd, buf, n));
	vf::crash_point(fd);
	return r;
}
extern "C" off_t lseek(int fd, off_t off, int whence)
{
	const off_t r(syscall(SYS_lseek, fd, off, whence));
	vf::crash_point(fd);
	return r;
}
extern "C" off_t lseek64(int fd, off_t off, int whence)
{
	const off_t r(syscall(SYS_lseek, fd, off, whence));
	vf::crash_point(fd);
	return r;
}

using namespace FIX8;
namespace vf {

struct Op { char kind; unsigned a, b; std::string data; };

static std::vector<Op> parse_ops(std::istringstream& is, bool& more)
{
	std::vector<Op> v; std::string t;
	more = false;
	while (is >> t)
	{
		if (t == "|") { more = true; break; }
		Op o; o.kind = t[0];
		const size_t c(t.find(':'));
		o.a = static_cast<unsigned>(strtoul(t.substr(1, c - 1).c_str(), nullptr, 10));
		if (o.kind == 'P') o.data = unhex(t.substr(c + 1)); else o.b = static_cast<unsigned>(strtoul(t.substr(c + 1).c_str(), nullptr, 10));
		v.push_back(o);
	}
	return v;
}

static bool apply(FilePersister& fp, const Op& o) { return o.kind == 'P' ? fp.put(o.a, o.data) : fp.put(o.a, o.b); }

static void raw_write(int fd, const void *p, size_t n) { if (syscall(SYS_write, fd, p, n) < 0) {} }

// child: run the operations with the crash armed; reports the number of completed operations (and the point count) through the pipe
static void child_run(const std::string& dir, const std::string& name, const std::vector<Op>& ops, long target, int pfd)
{
	const int probe(dup(0));
	close(probe);
	g_fd_floor = probe;          // descriptors the persister is about to open
	g_count = 0; g_target = target; g_armed = true;
	FilePersister fp;
	if (!fp.initialise(dir, name, true)) _exit(3);
	for (size_t i(0); i < ops.size(); ++i)
	{
		apply(fp, ops[i]);
		const unsigned char done(static_cast<unsigned char>(i + 1));
		raw_write(pfd, &done, 1);
	}
	g_armed = false;
	const long cnt(g_count);
	const unsigned char mark(255);
	raw_write(pfd, &mark, 1);
	raw_write(pfd, &cnt, sizeof cnt);
	_exit(1);                    // ran to completion: the crash point lies beyond the operations
}

static std::string read_back(FilePersister& fp, const std::vector<unsigned>& seqs, std::string& ctrl)
{
	J r;
	for (unsigned s : seqs)
	{
		f8String to; const bool ok(fp.get(s, to));
		J e('['); e.boolean(ok).hexs(ok ? to : std::string());
		r.k(std::to_string(s).c_str()).raw(e.done());
	}
	unsigned a(0), b(0); const bool ok(fp.get(a, b));
	J c('['); c.boolean(ok).unum(a).unum(b); ctrl = c.done();
	return r.done();
}

static Reg r_crash("crash", [](std::istringstream& is) {
	static unsigned serial(0);
	bool more(false);
	const std::vector<Op> pre(parse_ops(is, more));
	const std::vector<Op> post(more ? parse_ops(is, more) : std::vector<Op>());
	const std::string dir(scratch_dir()), name("cr" + std::to_string(++serial));
	std::vector<unsigned> seqs;
	for (auto& o : pre) if (o.kind == 'P') seqs.push_back(o.a);
	std::vector<unsigned> seqs2(seqs);
	for (auto& o : post) if (o.kind == 'P') seqs2.push_back(o.a);
	auto wipe = [&] { unlink((dir + "/" + name).c_str()); unlink((dir + "/" + name + ".idx").c_str()); };
	auto run_child = [&](long target, int& done, long& count) -> int {
		int pp[2]; if (pipe(pp)) return -1;
		fflush(nullptr);
		const pid_t pid(fork());
		if (pid == 0) { close(pp[0]); child_run(dir, name, pre, target, pp[1]); }
		close(pp[1]);
		done = 0; count = -1;
		// a child forked from a process with other threads can inherit a lock that nobody will release: it gets 20 s
		int st(0); bool exited(false);
		for (int i(0); i < 20000 && !exited; ++i) { exited = waitpid(pid, &st, WNOHANG) == pid; if (!exited) usleep(1000); }
		if (!exited) { kill(pid, SIGKILL); waitpid(pid, &st, 0); close(pp[0]); return -2; }
		unsigned char b;
		while (read(pp[0], &b, 1) == 1)
		{
			if (b == 255) { if (read(pp[0], &count, sizeof count) != sizeof count) count = -1; break; }
			done = b;
		}
		close(pp[0]);
		return WIFEXITED(st) ? WEXITSTATUS(st) : 100 + (WIFSIGNALED(st) ? WTERMSIG(st) : 0);
	};
	int done(0); long n(0);
	wipe();
	int rc0(run_child(-1, done, n));
	for (int retry(0); rc0 == -2 && retry < 3; ++retry) { wipe(); rc0 = run_child(-1, done, n); }
	if (rc0 != 1 || n < 0) return std::string("{\"error\":\"dry run failed rc=") + std::to_string(rc0) + "\"}";
	J out;
	out.k("n").num(n);
	J runs('[');
	for (long k(1); k <= n; ++k)
	{
		wipe();
		long cnt(0);
		int rc(run_child(k, done, cnt));
		for (int retry(0); rc == -2 && retry < 3; ++retry) { wipe(); rc = run_child(k, done, cnt); }
		J r;
		r.k("k").num(k); r.k("done").num(done); r.k("rc").num(rc);
		{
			FilePersister fp;
			const bool op(fp.initialise(dir, name, false));
			r.k("open").boolean(op);
			if (op)
			{
				std::string c1; const std::string r1(read_back(fp, seqs, c1));
				r.k("r1").raw(r1); r.k("c1").raw(c1);
				J po('[');
				for (auto& o : post) po.boolean(apply(fp, o));
				r.k("post").raw(po.done());
			}
		}
		{
			FilePersister fp;
			const bool op(fp.initialise(dir, name, false));
			r.k("open2").boolean(op);
			if (op)
			{
				std::string c2; const std::string r2(read_back(fp, seqs2, c2));
				r.k("r2").raw(r2); r.k("c2").raw(c2);
			}
		}
		runs.raw(r.done());
	}
	wipe();
	out.k("runs").raw(runs.done());
	return out.done();
});

}
