// C32 (bytes half): XmlElement::Factory on arbitrary bytes returns a tree or throws a library exception; no memory errors.
#include "fuzz_common.hpp"
#include <fix8/f8includes.hpp>
#include <sstream>
#include <memory>
#include <cstring>

using namespace FIX8;
static vfz::AtExit reg;
static unsigned long long excluded_include(0);

static size_t walk(const XmlElement *e, int depth)
{
	size_t n(e->GetTag().size());
	for (auto it(e->abegin()); it != e->aend(); ++it) n += it->first.size() + it->second.size();
	if (e->GetVal()) n += e->GetVal()->size();
	std::string t;
	e->GetAttr("name", t);
	if (depth < 300)
		for (auto it(e->begin()); it != e->end(); ++it) n += walk(*it, depth + 1);
	return n;
}

extern "C" int LLVMFuzzerTestOneInput(const uint8_t *data, size_t size)
{
	vfz::tick();
	if (size > 4096) return 0;
	const std::string doc(reinterpret_cast<const char *>(data), size);
	if (doc.find("xi:include") != std::string::npos) { ++excluded_include; return 0; }   // would open arbitrary files
	XmlElement::XmlFlags fl;
	fl.set(XmlElement::noextensions);           // the default mode runs !{...} through popen
	XmlElement::set_flags(fl);
	std::istringstream in(doc);
	try
	{
		std::unique_ptr<XmlElement> root(XmlElement::Factory(in, nullptr));
		if (root)
		{
			++vfz::C().accepted;
			const size_t n(walk(root.get(), 0));
			if (root->GetChildCnt() > 0 || n > 8) vfz::note_nontrivial(data, size);
			XmlElement::XmlSet set;
			root->find(root->GetTag() + "/a", set);
			std::ostringstream os;
			os << *root;
		}
	}
	catch (f8Exception&) {}
	catch (std::exception&) {}
	return 0;
}
