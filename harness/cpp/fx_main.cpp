// fx: persistent executor. Reads one command per line on stdin, answers one JSON line on stdout.
// Everything runs the real fix8 code built from /repo's working tree; oracles live in the Python driver.
#include "common.hpp"
#include <iostream>
#include <cxxabi.h>
#include <dlfcn.h>
#include <unistd.h>
#include <sys/stat.h>

namespace FIX8 { namespace UTEST { const F8MetaCntx& ctx(); } namespace F44 { const F8MetaCntx& ctx(); } }

// ---- virtual clock: CLOCK_REALTIME is served from a harness variable when enabled (Tickval(true), Tickval::now(), time())
#include <sys/syscall.h>
#include <time.h>
#include <atomic>
#include <pthread.h>
namespace vf {
std::atomic<bool> vclock_on(false); std::atomic<long long> vclock_ns(0); std::atomic<long long> sleeps(0);
static thread_local std::atomic<long long> tl_sleep_count{0};
std::atomic<long long> *sleep_counter_of_self() { return &tl_sleep_count; }   // valid while the calling thread lives
}extern "C" int clock_gettime(clockid_t id, struct timespec *ts)
{
	if (id == CLOCK_REALTIME && vf::vclock_on)
	{
		const long long ns(vf::vclock_ns.load());
		ts->tv_sec = ns / 1000000000LL; ts->tv_nsec = ns % 1000000000LL;
		return 0;
	}
	return static_cast<int>(syscall(SYS_clock_gettime, id, ts));
}
extern "C" int clock_nanosleep(clockid_t id, int flags, const struct timespec *req, struct timespec *rem)
{
	if (vf::vclock_on)
	{
		// sleeps do not wait for real time on the virtual clock (20 us, so that polling loops do not burn a core); counted per thread so that a
		// harness can tell when a polling thread has gone round its loop
		++vf::sleeps;
		++*vf::sleep_counter_of_self();
		struct timespec t20 {0, 20000};
		syscall(SYS_clock_nanosleep, CLOCK_MONOTONIC, 0, &t20, nullptr);
		return 0;
	}
	return static_cast<int>(syscall(SYS_clock_nanosleep, id, flags, req, rem)) ? errno : 0;
}

namespace vf {

std::map<std::string, Cmd>& commands() { static std::map<std::string, Cmd> c; return c; }

static std::map<std::string, const FIX8::F8MetaCntx *> dl_ctx;

const FIX8::F8MetaCntx& schema(const std::string& name)
{
	if (name == "UTEST") return FIX8::UTEST::ctx();
#ifndef FX_SMALL
	if (name == "F44") return FIX8::F44::ctx();
#endif
	auto it(dl_ctx.find(name));
	if (it != dl_ctx.end()) return *it->second;
	// anything else is the path of a shared object exporting verif_ctx()
	void *h(dlopen(name.c_str(), RTLD_NOW | RTLD_LOCAL));
	if (!h) throw std::runtime_error(std::string("dlopen: ") + dlerror());
	using fn = const FIX8::F8MetaCntx *(*)();
	fn f(reinterpret_cast<fn>(dlsym(h, "verif_ctx")));
	if (!f) throw std::runtime_error("dlsym verif_ctx failed");
	return *(dl_ctx[name] = f());
}

static Reg r_clock("clock", [](std::istringstream& is) {
	std::string op; is >> op;
	if (op == "off") vclock_on = false;
	else { long long sec(0), nsec(0); is >> sec >> nsec; vclock_ns = sec * 1000000000LL + nsec; vclock_on = true; }
	return std::string("{\"ok\":true}");
});

static std::string g_scratch;
std::string scratch_dir() { return g_scratch; }

std::string describe_exception()
{
	auto dm = [](const char *n) { int st; char *p(abi::__cxa_demangle(n, 0, 0, &st)); std::string r(p ? p : n); free(p); return r; };
	J j;
	try { throw; }
	catch (FIX8::f8Exception& e) { j.k("exc").str(dm(typeid(e).name())); j.k("f8").boolean(true); j.k("what").str(e.what()); }
	catch (std::exception& e) { j.k("exc").str(dm(typeid(e).name())); j.k("f8").boolean(false); j.k("what").str(e.what()); }
	catch (...) { j.k("exc").str("unknown"); j.k("f8").boolean(false); j.k("what").str(""); }
	return j.done();
}

}

int main(int argc, char **argv)
{
	// isolate: own scratch dir as cwd, global logger pointed into it
	const char *sc(getenv("VERIF_SCRATCH"));
	char tmpl[256];
	snprintf(tmpl, sizeof tmpl, "%s/fxXXXXXX", sc && *sc ? sc : "/tmp");
	if (!mkdtemp(tmpl)) { perror("mkdtemp"); return 2; }
	vf::g_scratch = tmpl;
	if (chdir(tmpl)) { perror("chdir"); return 2; }
	FIX8::GlobalLogger::set_global_filename(std::string(tmpl) + "/global.log");
	// nothing is written to the global logger: a library thread that logs and then exits (the Timer thread announces its termination there) races with the
	// logger thread inside the bundled FastFlow allocator (DESIGN 10.14) - not the subject of any listed property
	FIX8::GlobalLogger::set_levels(FIX8::Logger::Levels());

	std::ios::sync_with_stdio(false);
	std::string line;
	while (std::getline(std::cin, line))
	{
		std::istringstream is(line);
		std::string cmd;
		is >> cmd;
		std::string out;
		if (cmd == "quit") break;
		auto it(vf::commands().find(cmd));
		if (it == vf::commands().end())
			out = "{\"error\":\"unknown command\"}";
		else
		{
			try { out = it->second(is); }
			catch (...) { out = "{\"error\":\"escaped\",\"x\":" + vf::describe_exception() + "}"; }
		}
		std::cout << out << '\n' << std::flush;
	}
	std::string rm("rm -rf '" + vf::g_scratch + "'");
	if (chdir("/") == 0 && system(rm.c_str())) {}
	_exit(0);   // skip static destructors of the logger threads etc.
}
