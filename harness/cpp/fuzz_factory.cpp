// C03: Message::factory is total and memory safe on arbitrary bytes; a decoded message prints and re-encodes within its buffer.
#include "fuzz_common.hpp"
#include <fix8/f8includes.hpp>
#include <sstream>
#include <memory>
#include <sys/stat.h>

namespace FIX8 { namespace UTEST { const F8MetaCntx& ctx(); } namespace F44 { const F8MetaCntx& ctx(); } }
using namespace FIX8;
static vfz::AtExit reg;

extern "C" int LLVMFuzzerInitialize(int *, char ***)
{
	const char *sc(getenv("VERIF_SCRATCH"));
	std::string d(std::string(sc && *sc ? sc : "/tmp") + "/fz" + std::to_string(getpid()));
	mkdir(d.c_str(), 0700);
	if (chdir(d.c_str())) {}
	GlobalLogger::set_global_filename(d + "/global.log");
	return 0;
}

extern "C" int LLVMFuzzerTestOneInput(const uint8_t *data, size_t size)
{
	vfz::tick();
	if (size < 1 || size > FIX8_MAX_MSG_LENGTH + 1) return 0;
	const unsigned sel(data[0]);
	const F8MetaCntx& ctx(sel & 1 ? F44::ctx() : UTEST::ctx());
	const bool nochk(sel & 2), perm(sel & 4);
	const f8String from(reinterpret_cast<const char *>(data + 1), size - 1);
	// reached field decoding? (same rule extract_header applies: 8=..|9=..|35=..|)
	if (from.size() > 12 && from[0] == '8' && from[1] == '=' && from.find("\0019=") != f8String::npos && from.find("\00135=") != f8String::npos)
		vfz::note_nontrivial(data, size);
	try
	{
		std::unique_ptr<Message> m(Message::factory(ctx, from, nochk, perm));
		if (m)
		{
			++vfz::C().accepted;
			std::ostringstream os;
			os << *m;
			f8String out;
			m->encode(out);       // a decoded message is at most as long as its input (+ framing): fits the encoder's buffer
		}
	}
	catch (f8Exception&) {}
	catch (std::exception&) {}
	return 0;
}
