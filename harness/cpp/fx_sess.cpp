// Session commands (C15-C23, C25): the REAL Session + Connection (FIXReader / FIXWriter) run over an in-memory socket implementation.
// The harness owns every inbound chunk boundary and sees every byte handed to the socket.  In pm_coro the whole stack is
// single-threaded (Connection::reader_execute() handles at most one message per call), so histories are deterministic.
//
//   sess new <slot> <i|a> <coro|thread|pipe> <schema> <sender> <target> <hb> <none|mem:NAME|file:NAME> <flags> <send_seq> <recv_seq>
//        flags: comma list of  enforce0 enforce1 reset always nochk permissive silent ignlogonseq clients=A;B wmax=N   ("-" for none)
//   sess in <slot> <hex> <chunks,csv|->      append inbound bytes (chunk schedule: sizes, the rest in one piece) and pump the reader
//   sess send <slot> <msg tokens ...>        Session::send(new message)      tokens as fx_codec build_message:  M <hextype> F <tag> <kind:value> ... ;
//   sess sendcs <slot> <custom_seq> <noinc> <msg tokens ...>
//   sess batch <slot> <msg tokens ; msg tokens ; ...>    Session::send_batch
//   sess tick <slot>                         Session::heartbeat_service()
//   sess failnext <slot> <n>                 the next n writes to the socket fail (EPIPE) without transmitting anything
//   sess get <slot> <seq>                    persister get
//   sess obs <slot> | sess stop <slot> | sess del <slot> | sess wipe
//   sess conc <slot> <nthreads> <script;script;...>  concurrent senders (C25), script = comma list of  s<id> | b<id>+<id>+... | y (yield)
// every command answers {"out":[hex per sendBytes call],"proc":[hex handed to Session::process],"deliv":[...],"trans":[[from,to]...],
//                        "st":state,"nss":n,"nrs":n,"ctrl":[ok,s,t],"shut":bool,"conn":bool,"ret":...}
#include "common.hpp"
#include <memory>
#include <deque>
#include <mutex>
#include <condition_variable>
#include <thread>
#include <atomic>
#include <unistd.h>
#include <Poco/Net/StreamSocketImpl.h>
#include <Poco/Net/StreamSocket.h>

using namespace FIX8;
namespace vf {

extern std::atomic<bool> vclock_on;
Message *build_message(const F8MetaCntx& ctx, std::istringstream& is);

//-----------------------------------------------------------------------------------------------
struct FakeSock : Poco::Net::StreamSocketImpl
{
	std::mutex m;
	std::condition_variable cv;
	std::deque<std::string> in;     // inbound chunks; receiveBytes never crosses a chunk boundary
	std::vector<std::string> out;   // one entry per sendBytes call
	bool closed = false, blocking = false;
	int wmax = 0;                   // > 0: sendBytes accepts at most that many bytes per call (short writes)
	int fail_next = 0;              // > 0: that many following sendBytes calls fail with EPIPE
	std::atomic<unsigned long> rcalls{0}, wcalls{0};
	std::atomic<bool> waiting{false};   // a reader is blocked on an empty inbound queue: everything fed so far has been consumed and processed

	int sendBytes(const void *buffer, int length, int) override
	{
		std::lock_guard<std::mutex> g(m);
		++wcalls;
		if (closed) { errno = EPIPE; return -1; }
		if (fail_next > 0) { --fail_next; errno = EPIPE; return -1; }      // injected transmit failure: nothing of this write reaches the wire
		const int n(wmax > 0 && length > wmax ? wmax : length);
		out.emplace_back(static_cast<const char *>(buffer), n);
		return n;
	}
	int receiveBytes(void *buffer, int length, int) override
	{
		std::unique_lock<std::mutex> g(m);
		++rcalls;
		if (blocking && in.empty() && !closed)
		{
			waiting = true;
			cv.wait(g, [&] { return closed || !in.empty(); });
			waiting = false;
		}
		if (in.empty()) { errno = 0; return 0; }   // orderly shutdown / nothing there: the reader treats it as connection gone
		std::string& c(in.front());
		const int n(std::min<size_t>(length, c.size()));
		memcpy(buffer, c.data(), n);
		c.erase(0, n);
		if (c.empty()) in.pop_front();
		return n;
	}
	bool poll(const Poco::Timespan&, int mode) override
	{
		std::lock_guard<std::mutex> g(m);
		return mode & Poco::Net::Socket::SELECT_READ ? !in.empty() : true;
	}
	size_t pending() { std::lock_guard<std::mutex> g(m); size_t n(0); for (auto& c : in) n += c.size(); return n; }
	void feed(const std::string& bytes, const std::vector<size_t>& chunks)
	{
		{
			std::lock_guard<std::mutex> g(m);
			size_t off(0);
			for (size_t c : chunks)
			{
				if (off >= bytes.size()) break;
				if (!c) continue;
				in.emplace_back(bytes.substr(off, c));
				off += in.back().size();
			}
			if (off < bytes.size()) in.emplace_back(bytes.substr(off));
		}
		cv.notify_all();
	}
	void connect(const Poco::Net::SocketAddress&) override {}
	void connect(const Poco::Net::SocketAddress&, const Poco::Timespan&) override {}
	void connectNB(const Poco::Net::SocketAddress&) override {}
	void close() override { shutdown(); }
	void shutdownReceive() override { shutdown(); }
	void shutdownSend() override {}
	void shutdown() override { { std::lock_guard<std::mutex> g(m); closed = true; } cv.notify_all(); }
	void setRawOption(int, int, const void *, poco_socklen_t) override {}
	void getRawOption(int, int, void *value, poco_socklen_t& length) override { memset(value, 0, length); }
	Poco::Net::SocketAddress address() override { return Poco::Net::SocketAddress("127.0.0.1", 11001); }
	Poco::Net::SocketAddress peerAddress() override { return Poco::Net::SocketAddress("127.0.0.1", 11002); }
	void setBlocking(bool) override {}
	bool secure() const override { return false; }
protected:
	~FakeSock() override {}
};

//-----------------------------------------------------------------------------------------------
static std::string fields_text(const MessageBase *mb)
{
	std::string o;
	for (const auto& pp : mb->get_positions())
	{
		char buf[FIX8_MAX_FLD_LENGTH + 64];
		const size_t n(pp.second->print(buf));
		o += std::to_string(pp.second->get_tag());
		o += '=';
		o.append(buf, n);
		o += '\x01';
	}
	return o;
}

struct TSession : Session
{
	std::mutex om;
	std::vector<std::string> proc, deliv;
	std::vector<std::pair<int, int>> trans;
	bool deliver_ok = true;

	// the timer thread is stopped for the lifetime of the session (ticks are explicit calls); it is joined once, by ~Timer
	void quiet_timer()
	{
		_timer.clear(); _timer.stop();
		for (int i(0); i < 200000 && _timer.cancellation_token().thread_state() != f8_thread_cancellation_token::Stopped; ++i) usleep(10);
	}
	TSession(const F8MetaCntx& ctx, const SessionID& sid, Persister *p) : Session(ctx, sid, p) { quiet_timer(); }
	TSession(const F8MetaCntx& ctx, const sender_comp_id& sci, Persister *p) : Session(ctx, sci, p) { quiet_timer(); }

	std::atomic<unsigned long> nproc{0};
	bool process(const f8String& from) override
	{
		{ std::lock_guard<std::mutex> g(om); proc.push_back(from); }
		++nproc;
		return Session::process(from);
	}
	// exactly what the repository's sample applications do (test/myfix.cpp): deliver unless enforce() objects
	bool handle_application(const unsigned seqnum, const Message *& msg) override
	{
		if (enforce(seqnum, msg))
			return false;
		J d;
		d.k("seq").unum(seqnum);
		d.k("type").str(msg->get_msgtype());
		d.k("h").hexs(fields_text(msg->Header()));
		d.k("b").hexs(fields_text(msg));
		{ std::lock_guard<std::mutex> g(om); deliv.push_back(d.done()); }
		return deliver_ok;
	}
	void state_change(const States::SessionStates before, const States::SessionStates after) override
	{
		std::lock_guard<std::mutex> g(om);
		trans.emplace_back(before, after);
	}
	bool tick() { return heartbeat_service(); }
	unsigned nss() const { return _next_send_seq; }
	unsigned nrs() const { return _next_receive_seq; }
	Persister *pers() const { return _persist; }
	bool active() const { return _active; }
};

struct Slot
{
	std::unique_ptr<TSession> ses;
	std::unique_ptr<Connection> con;
	std::unique_ptr<Poco::Net::StreamSocket> sock;
	FakeSock *fs = nullptr;
	Persister *pers = nullptr;
	bool pers_owned = false;
	ProcessModel pm = pm_coro;
	const F8MetaCntx *ctx = nullptr;
	size_t out_seen = 0;
};

static std::map<int, Slot> slots;
static std::map<std::string, MemoryPersister *> mem_pers;
static std::vector<std::string> file_names;

static void destroy(Slot& s)
{
	if (s.ses && s.con)
	{
		try { s.ses->stop(); } catch (...) {}
	}
	if (s.fs) s.fs->shutdown();
	s.con.reset();     // ~Connection clears the session's pointer, so ~Session leaves the persister alone
	s.ses.reset();
	s.sock.reset();
	s.fs = nullptr;
	if (s.pers_owned) delete s.pers;
	s.pers = nullptr;
}

static int g_rxret(0);
static std::string observe(Slot& s, const std::string& ret = "null")
{
	J j;
	J out('['), proc('['), deliv('['), trans('[');
	if (s.fs)
	{
		std::lock_guard<std::mutex> g(s.fs->m);
		for (; s.out_seen < s.fs->out.size(); ++s.out_seen) out.hexs(s.fs->out[s.out_seen]);
	}
	if (s.ses)
	{
		std::lock_guard<std::mutex> g(s.ses->om);
		for (auto& p : s.ses->proc) proc.hexs(p);
		for (auto& d : s.ses->deliv) deliv.raw(d);
		for (auto& t : s.ses->trans) { J p('['); p.num(t.first).num(t.second); trans.raw(p.done()); }
		s.ses->proc.clear(); s.ses->deliv.clear(); s.ses->trans.clear();
	}
	j.k("out").raw(out.done());
	j.k("proc").raw(proc.done());
	j.k("deliv").raw(deliv.done());
	j.k("trans").raw(trans.done());
	if (s.ses)
	{
		j.k("st").num(s.ses->get_session_state());
		j.k("nss").unum(s.ses->nss());
		j.k("nrs").unum(s.ses->nrs());
		j.k("shut").boolean(s.ses->is_shutdown());
		j.k("conn").boolean(s.con && s.con->is_connected());
		j.k("pend").unum(s.fs ? s.fs->pending() : 0);
		J c('[');
		unsigned a(0), b(0);
		// (only in the single-threaded model: in the threaded models the writer thread may be storing at this moment)
		if (s.pers && s.pm == pm_coro) { const bool ok(s.pers->get(a, b)); c.boolean(ok).unum(a).unum(b); }
		j.k("ctrl").raw(c.done());
	}
	j.k("rxret").num(g_rxret);
	j.k("ret").raw(ret);
	return j.done();
}

static void pump(Slot& s)
{
	g_rxret = 0;
	if (s.pm != pm_coro)
	{
		// threaded models: wait until the reader thread has drained the inbound bytes (bounded) and the writer is idle
		for (int i(0); i < 100000 && !(s.fs->waiting && !s.fs->pending()) && !s.ses->is_shutdown(); ++i) usleep(50);
		if (s.pm == pm_pipeline) usleep(3000);
		return;
	}
	for (int guard(0); guard < 100000 && s.fs->pending() && !s.ses->is_shutdown() && s.con; ++guard)
	{
		const size_t before(s.fs->pending());
		const unsigned long rc(s.fs->rcalls);
		const int r(s.con->reader_execute());
		if (r < 0) { g_rxret = r; break; }   // the reader reported an error: an application stops driving it
		if (s.fs->pending() == before && s.fs->rcalls == rc)
			break;   // no progress (coroutine finished)
	}
}

// sid <begin1> <sender1> <target1> <begin2> <sender2> <target2> <via: ctor|string>  -> SessionID comparison results (C23)
static Reg r_sid("sid", [](std::istringstream& is) {
	std::string b1, s1, t1, b2, s2, t2, via; is >> b1 >> s1 >> t1 >> b2 >> s2 >> t2 >> via;
	b1 = unhex(b1); s1 = unhex(s1); t1 = unhex(t1); b2 = unhex(b2); s2 = unhex(s2); t2 = unhex(t2);
	SessionID x(b1, s1, t1), y(b2, s2, t2);
	if (via == "string") { x = SessionID(x.get_id()); y = SessionID(y.get_id()); }
	SessionID xc(x);
	J j;
	j.k("eq").boolean(x == y); j.k("ne").boolean(x != y);
	j.k("eq_rev").boolean(y == x); j.k("ne_rev").boolean(y != x);
	j.k("self_eq").boolean(x == x); j.k("self_ne").boolean(x != x);
	j.k("copy_eq").boolean(x == xc); j.k("copy_ne").boolean(x != xc);
	j.k("id1").str(x.get_id()); j.k("id2").str(y.get_id());
	j.k("s1").str(x.get_senderCompID()()); j.k("t1").str(x.get_targetCompID()());
	SessionID r(x.make_reverse_id());
	j.k("rev_s").str(r.get_senderCompID()()); j.k("rev_t").str(r.get_targetCompID()());
	return j.done();
});

static Reg r_sess("sess", [](std::istringstream& is) {
	std::string op; is >> op;
	vclock_on = true;
	// short-lived reader/writer threads must not log through the global logger: the bundled FastFlow allocator behind the log queue
	// races with thread exit (not covered by a listed property) and would end searches with unreproducible sanitizer reports
	static bool silenced((GlobalLogger::set_levels(Logger::Levels()), true));
	if (op == "wipe")
	{
		for (auto& kv : slots) destroy(kv.second);
		slots.clear();
		for (auto& kv : mem_pers) delete kv.second;
		mem_pers.clear();
		for (auto& n : file_names) { unlink((scratch_dir() + "/" + n).c_str()); unlink((scratch_dir() + "/" + n + ".idx").c_str()); }
		file_names.clear();
		return std::string("{\"ok\":true}");
	}
	int slot(0); is >> slot;
	if (op == "new")
	{
		std::string role, pms, sch, sender, target, persist, flags;
		unsigned hb(30), sseq(0), rseq(0);
		is >> role >> pms >> sch >> sender >> target >> hb >> persist >> flags >> sseq >> rseq;
		Slot& s(slots[slot]);
		destroy(s);
		s = Slot();
		s.ctx = &schema(sch);
		s.pm = pms == "coro" ? pm_coro : pms == "thread" ? pm_thread : pm_pipeline;
		if (persist.compare(0, 4, "mem:") == 0)
		{
			MemoryPersister *& mp(mem_pers[persist.substr(4)]);
			if (!mp) mp = new MemoryPersister;
			s.pers = mp;
		}
		else if (persist.compare(0, 5, "file:") == 0)
		{
			std::unique_ptr<FilePersister> fp(new FilePersister);
			const std::string name(persist.substr(5));
			if (std::find(file_names.begin(), file_names.end(), name) == file_names.end()) file_names.push_back(name);
			if (!fp->initialise(scratch_dir(), name, false)) return std::string("{\"error\":\"persister initialise failed\"}");
			s.pers = fp.release();
			s.pers_owned = true;
		}
		bool enforce(true), reset(false), always(false), nochk(false), permissive(false), silent(false);
		Clients clients;
		int wmax(0);
		{
			std::istringstream fl(flags); std::string f;
			while (std::getline(fl, f, ','))
			{
				if (f == "enforce0") enforce = false; else if (f == "reset") reset = true; else if (f == "always") always = true;
				else if (f == "nochk") nochk = true; else if (f == "permissive") permissive = true; else if (f == "silent") silent = true;
				else if (f.compare(0, 8, "clients=") == 0)
				{
					std::istringstream cl(f.substr(8)); std::string c;
					while (std::getline(cl, c, ';')) if (!c.empty()) clients.emplace(c, Client(c, Poco::Net::IPAddress()));
				}
				else if (f.compare(0, 5, "wmax=") == 0) wmax = atoi(f.c_str() + 5);
			}
		}
		const bool initiator(role == "i");
		if (initiator)
			s.ses.reset(new TSession(*s.ctx, SessionID(s.ctx->_beginStr, sender, target), s.pers));
		else
			s.ses.reset(new TSession(*s.ctx, sender_comp_id(sender), s.pers));
		LoginParameters lp(1, 1, default_appl_ver_id(), 1, reset, always, silent, nochk, permissive, false, enforce, 0, 0, hb, Schedule(), clients);
		s.ses->set_login_parameters(lp);
		s.fs = new FakeSock;
		s.fs->blocking = s.pm != pm_coro;
		s.fs->wmax = wmax;
		s.sock.reset(new Poco::Net::StreamSocket(s.fs));
		Poco::Net::SocketAddress addr("127.0.0.1", 11002);
		if (initiator)
			s.con.reset(new ClientConnection(s.sock.get(), addr, *s.ses, hb, s.pm));
		else
			s.con.reset(new ServerConnection(s.sock.get(), addr, *s.ses, hb, s.pm));
		const int r(s.ses->start(s.con.get(), false, sseq, rseq));
		if (s.pm != pm_coro) usleep(2000);
		return observe(s, std::to_string(r));
	}
	auto it(slots.find(slot));
	if (it == slots.end() || !it->second.ses) return std::string("{\"error\":\"no such slot\"}");
	Slot& s(it->second);
	if (op == "in")
	{
		std::string hexs, chunks; long expect(-1); is >> hexs >> chunks >> expect;
		std::vector<size_t> cs;
		if (chunks != "-") { std::istringstream c(chunks); std::string t; while (std::getline(c, t, ',')) cs.push_back(strtoul(t.c_str(), nullptr, 10)); }
		const unsigned long base(s.ses->nproc.load());
		s.fs->feed(unhex(hexs), cs);
		pump(s);
		// pipelined model: reading runs ahead of processing; the caller says how many messages it expects to be handed over
		if (expect >= 0 && s.pm == pm_pipeline)
			for (int i(0); i < 200000 && static_cast<long>(s.ses->nproc.load() - base) < expect && !s.ses->is_shutdown(); ++i) usleep(50);
		return observe(s);
	}
	if (op == "send" || op == "sendcs")
	{
		unsigned cs(0); int noinc(0);
		if (op == "sendcs") is >> cs >> noinc;
		Message *m(build_message(*s.ctx, is));
		const bool r(s.ses->send(m, true, cs, noinc != 0));
		if (s.pm == pm_pipeline) usleep(3000);
		return observe(s, r ? "true" : "false");
	}
	if (op == "batch")
	{
		std::vector<Message *> v;
		while (is.peek() != EOF && !(is >> std::ws).eof()) v.push_back(build_message(*s.ctx, is));
		const size_t r(s.ses->send_batch(v, true));
		if (s.pm == pm_pipeline) usleep(3000);
		return observe(s, std::to_string(r));
	}
	if (op == "tick") { const bool r(s.ses->tick()); return observe(s, r ? "true" : "false"); }
	if (op == "failnext") { int n(0); is >> n; { std::lock_guard<std::mutex> g(s.fs->m); s.fs->fail_next = n; } return observe(s, "true"); }
	if (op == "get")
	{
		unsigned seq(0); is >> seq;
		f8String to; J r;
		const bool ok(s.pers && s.pers->get(seq, to));
		r.k("ok").boolean(ok); r.k("v").hexs(ok ? to : std::string());
		return observe(s, r.done());
	}
	if (op == "obs") return observe(s);
	if (op == "stop") { s.ses->stop(); return observe(s); }
	if (op == "del") { std::string o(observe(s)); destroy(s); slots.erase(slot); return o; }
	if (op == "conc")
	{
		// concurrent senders: every thread runs its script of sends / batches; messages are built up front (single-threaded)
		unsigned nthreads(0); std::string scripts; is >> nthreads >> scripts;
		// step kinds: s = send(msg) (session destroys), k = send(msg, false) (caller keeps and deletes), r = send(Message&), b = send_batch(destroy), B = send_batch(keep)
		struct Step { std::vector<Message *> msgs; bool yield = false; char kind = 's'; };
		std::vector<std::vector<Step>> plan;
		{
			std::istringstream ss(scripts); std::string sc;
			while (std::getline(ss, sc, ';'))
			{
				plan.emplace_back();
				std::istringstream st(sc); std::string t;
				while (std::getline(st, t, ','))
				{
					Step step;
					if (t == "y") step.yield = true;
					else
					{
						step.kind = t[0];
						std::istringstream ids(t.substr(1)); std::string id;
						while (std::getline(ids, id, '+'))
						{
							std::istringstream spec("M 44 F 11 s:" + hex("ID" + id) + " F 21 c:49 F 55 s:" + hex("SYM") + " F 54 c:49 F 60 t:0 F 40 c:49 ;");
							step.msgs.push_back(build_message(*s.ctx, spec));
						}
					}
					plan.back().push_back(std::move(step));
				}
			}
		}
		std::atomic<int> go(0);
		std::vector<std::thread> th;
		std::atomic<unsigned> accepted(0);
		for (auto& script : plan)
			th.emplace_back([&script, &go, &s, &accepted] {
				while (!go.load()) sched_yield();
				for (auto& st : script)
				{
					if (st.yield) { sched_yield(); continue; }
					switch (st.kind)
					{
					case 's': if (s.ses->send(st.msgs[0])) ++accepted; break;
					case 'k': if (s.ses->send(st.msgs[0], false)) ++accepted; delete st.msgs[0]; break;
					case 'r': if (s.ses->send(*st.msgs[0])) ++accepted; delete st.msgs[0]; break;
					case 'B': accepted += s.ses->send_batch(st.msgs, false); for (auto *m : st.msgs) delete m; break;
					default: accepted += s.ses->send_batch(st.msgs, true); break;
					}
				}
			});
		go = 1;
		for (auto& t : th) t.join();
		if (s.pm == pm_pipeline)
		{
			// wait until the writer thread has drained its queue: the number of socket writes stops changing
			unsigned long last(~0ul);
			for (int i(0); i < 400; ++i) { usleep(2500); const unsigned long w(s.fs->wcalls); if (w == last && i > 4) break; last = w; }
		}
		return observe(s, std::to_string(accepted.load()));
	}
	return std::string("{\"error\":\"bad sess op\"}");
});

}
