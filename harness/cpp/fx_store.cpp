// Persister commands (C26): one whole operation history per call against a fresh MemoryPersister / FilePersister.
//   store <mem|file> <op> <op> ...      -> JSON array, one result per op
//   ops:  P<seq>:<hex|->  put message        -> bool
//         C<s>:<t>        put control record -> bool
//         G<seq>          get message        -> {"ok":bool,"v":hex}
//         K               get control record -> {"ok":bool,"s":n,"t":n}
//         L               get_last_seqnum    -> {"ret":n,"to":n}
//         N<req>:<last>   find_nearest_highest_seqnum -> n
//         R<from>:<to>    range get          -> {"ret":n,"ev":[[seq,hex,no_more_records],...]}   every callback invocation in order
//         O               close and reopen (file persister only; ignored for mem) -> bool
#include "common.hpp"
#include <memory>
#include <unistd.h>

using namespace FIX8;
namespace FIX8 { namespace UTEST { const F8MetaCntx& ctx(); } }
namespace vf {

struct StoreSession : Session
{
	J *ev = nullptr;
	StoreSession() : Session(UTEST::ctx(), SessionID("FIX.4.2:A->B"))
	{
		_timer.clear();
		_timer.stop();
		_timer.join();
	}
	bool handle_application(const unsigned, const Message *&) override { return true; }
	bool retrans_callback(const SequencePair& with, RetransmissionContext& rctx) override
	{
		J e('[');
		e.unum(with.first).hexs(with.second).boolean(rctx._no_more_records);
		if (ev) ev->raw(e.done());
		return true;
	}
};

static bool split2(const std::string& a, unsigned long long& x, std::string& rest)
{
	const size_t c(a.find(':'));
	x = strtoull(a.substr(1, c == std::string::npos ? c : c - 1).c_str(), nullptr, 10);
	rest = c == std::string::npos ? "" : a.substr(c + 1);
	return c != std::string::npos;
}

static Reg r_store("store", [](std::istringstream& is) {
	static StoreSession *ses(new StoreSession);   // lives as long as the executor (its destructor sleeps)
	static unsigned serial(0);
	std::string kind, a;
	is >> kind;
	const bool file(kind == "file");
	const std::string dir(scratch_dir()), name("st" + std::to_string(++serial));
	std::unique_ptr<Persister> p;
	auto open = [&](bool first) {
		p.reset();
		if (file)
		{
			std::unique_ptr<FilePersister> fp(new FilePersister);
			const bool ok(fp->initialise(dir, name, first));
			p = std::move(fp);
			return ok;
		}
		p.reset(new MemoryPersister);
		return true;
	};
	if (!open(true)) return std::string("{\"error\":\"initialise failed\"}");
	J out('[');
	while (is >> a)
	{
		unsigned long long x(0); std::string rest;
		split2(a, x, rest);
		switch (a[0])
		{
		case 'P': out.boolean(p->put(static_cast<unsigned>(x), unhex(rest))); break;
		case 'C': out.boolean(p->put(static_cast<unsigned>(x), static_cast<unsigned>(strtoull(rest.c_str(), nullptr, 10)))); break;
		case 'G': { f8String to("?unset?"); const bool ok(p->get(static_cast<unsigned>(x), to)); J o; o.k("ok").boolean(ok); o.k("v").hexs(to); out.raw(o.done()); break; }
		case 'K': { unsigned s(4242424242u), t(4141414141u); const bool ok(p->get(s, t)); J o; o.k("ok").boolean(ok); o.k("s").unum(s); o.k("t").unum(t); out.raw(o.done()); break; }
		case 'L': { unsigned to(777); const unsigned r(p->get_last_seqnum(to)); J o; o.k("ret").unum(r); o.k("to").unum(to); out.raw(o.done()); break; }
		case 'N': out.unum(p->find_nearest_highest_seqnum(static_cast<unsigned>(x), static_cast<unsigned>(strtoull(rest.c_str(), nullptr, 10)))); break;
		case 'R':
		{
			J ev('[');
			ses->ev = &ev;
			const unsigned r(p->get(static_cast<unsigned>(x), static_cast<unsigned>(strtoull(rest.c_str(), nullptr, 10)), *ses, &Session::retrans_callback));
			ses->ev = nullptr;
			J o; o.k("ret").unum(r); o.k("ev").raw(ev.done()); out.raw(o.done());
			break;
		}
		case 'O': out.boolean(file ? open(false) : true); break;
		default: return std::string("{\"error\":\"bad op\"}");
		}
	}
	p.reset();
	if (file)
	{
		unlink((dir + "/" + name).c_str());
		unlink((dir + "/" + name + ".idx").c_str());
	}
	return out.done();
});

}
