# harness executables
FX_OBJS := $(O)/h/fx_main.o $(O)/h/fx_codec.o $(O)/h/fx_meta.o $(O)/h/fx_misc.o $(O)/h/fx_store.o $(O)/h/fx_sess.o $(O)/h/fx_thr.o
$(O)/fx: $(FX_OBJS) $(UT_OBJS) $(F44_OBJS) $(O)/librt.a
	$(CXX) $(LDFLAGS) -rdynamic -o $@ $(FX_OBJS) $(UT_OBJS) $(F44_OBJS) $(O)/librt.a $(LDLIBS)
fx: $(O)/fx
.PHONY: fx

# libFuzzer targets (FLAVOUR=fuzz)
$(O)/fuzz_factory: $(O)/h/fuzz_factory.o $(UT_OBJS) $(F44_OBJS) $(O)/librt.a
	$(CXX) $(SAN_asan) -fsanitize=fuzzer -o $@ $(O)/h/fuzz_factory.o $(UT_OBJS) $(F44_OBJS) $(O)/librt.a $(LDLIBS)
$(O)/fuzz_chksum: $(O)/h/fuzz_chksum.o $(O)/librt.a
	$(CXX) $(SAN_asan) -fsanitize=fuzzer -o $@ $(O)/h/fuzz_chksum.o $(O)/librt.a $(LDLIBS)
fuzz_factory: $(O)/fuzz_factory
fuzz_chksum: $(O)/fuzz_chksum
.PHONY: fuzz_factory fuzz_chksum
$(O)/fuzz_xml: $(O)/h/fuzz_xml.o $(O)/librt.a
	$(CXX) $(SAN_asan) -fsanitize=fuzzer -o $@ $(O)/h/fuzz_xml.o $(O)/librt.a $(LDLIBS)
fuzz_xml: $(O)/fuzz_xml
.PHONY: fuzz_xml

# small executor without sanitizers for the crash enumeration (C27): fork() of an ASan process costs ~100 ms, of this one ~1 ms
FXC_OBJS := $(O)/h/fx_main_small.o $(O)/h/fx_store.o $(O)/h/fx_crash.o
$(O)/h/fx_main_small.o: $(H)/fx_main.cpp $(CFGINC)/fix8/f8config.h
	@mkdir -p $(@D)
	$(CXX) $(CPPFLAGS) -DFX_SMALL $(CXXFLAGS) -c $< -o $@
$(O)/fxc: $(FXC_OBJS) $(UT_OBJS) $(O)/librt.a
	$(CXX) $(LDFLAGS) -rdynamic -o $@ $(FXC_OBJS) $(UT_OBJS) $(O)/librt.a $(LDLIBS)
fxc: $(O)/fxc
.PHONY: fxc
