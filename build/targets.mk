# harness executables
FX_OBJS := $(O)/h/fx_main.o $(O)/h/fx_codec.o $(O)/h/fx_meta.o
$(O)/fx: $(FX_OBJS) $(UT_OBJS) $(F44_OBJS) $(O)/librt.a
	$(CXX) $(LDFLAGS) -rdynamic -o $@ $(FX_OBJS) $(UT_OBJS) $(F44_OBJS) $(O)/librt.a $(LDLIBS)
fx: $(O)/fx
.PHONY: fx
