#!/usr/bin/env python3
"""Sensitivity run (development tool, not a registered check): apply deliberate, compiling breaks of single properties to a
scratch clone of /repo, run the quick tier of the checks that should notice, and report caught / missed.

usage: tools/mutants.py SANDBOX [name-filter ...]
SANDBOX (outside /repo and /verif) must hold   SANDBOX/repo (git clone of /repo)  and  SANDBOX/verif (copy of /verif without build output).
The checks are relocatable through the environment (VERIF, REPO are picked up by build/Makefile), so /repo itself is never touched.
"""
import os, sys, subprocess, time, json

M = [
    # name, file, old, new, checks expected to fail
    ('unknown-dropped', 'runtime/message.cpp', "\t\t\t\t_unknown.append(dptr + s_offset, result);\n", "", ['C05']),
    ('group-unknown-dropped', 'runtime/message.cpp', "\t\t\t\tgrp->_unknown.append(dptr + s_offset, result);\n", "", ['C05']),
    ('trailing-run-kept-twice', 'runtime/message.cpp', "\t\t_unknown.resize(run_unknown_sz);\n", "", ['C05']),
    ('no-duplicate-check', 'runtime/message.cpp', "\t\t\tif (!itr->_field_traits.has(FieldTrait::automatic))\n\t\t\t\tthrow DuplicateField(tv);\n", "\t\t\t;\n", ['C04']),
    ('dtoa-double-rounding', 'runtime/modp_numtoa.c', "if (diff > 0.5 || (diff == 0.5 && err > 0.0)) {", "if (diff > 0.5) {", ['C08']),
    ('dtoa-no-rollover', 'runtime/modp_numtoa.c', "        if (frac >= pow10_[prec]) {", "        if (0) {", ['C08']),
    ('fixed-width-plus-one', 'include/fix8/message.hpp', "\t\t\treturn ii + val_sz + 1; // account for field separator", "\t\t\treturn ii + val_sz + (val_sz > 40 ? 2 : 1);", ['C06']),
    ('rlm-idx-no-equality', 'include/fix8/field.hpp', "return res != rng + _sz && !(what < *res) ? res - rng : -1;", "return res != rng + _sz ? res - rng : -1;", ['C10']),
    ('copy-legal-no-nested', 'runtime/message.cpp', "\t\t\t\t\tcopied += qq->copy_legal(grc, force);\n", "\t\t\t\t\tif (!gb1->size()) copied += qq->copy_legal(grc, force);\n", ['C11']),
    ('chksum-tail-short', 'include/fix8/message.hpp', "for (; ii < elen; ret += from[ii++]); // add up rest one by one", "for (; ii + 1 < elen || (ii < elen && elen < 24); ret += from[ii++]);", ['C07']),
    ('leap-year-shift', 'include/fix8/field.hpp', "+ tyears * 365 + (tyears + 2) / 4);", "+ tyears * 365 + (tyears + 1) / 4);", ['C09', 'C01']),
    ('schedule-week-wrap', 'include/fix8/session.hpp', "from <= pos && pos <= to : pos >= from || pos <= to;", "from <= pos && pos <= to : pos >= from && pos <= to;", ['C24']),
    ('pset-find-first', 'include/fix8/f8types.hpp', "\tconst_iterator find(const T what) const\n\t{\n\t\tconst const_internal_result res(std::equal_range (_arr, _arr + _sz, what, Comp()));\n\t\treturn res.first != res.second ? res.first : end();",
     "\tconst_iterator find(const T what) const\n\t{\n\t\tconst const_internal_result res(std::equal_range (_arr, _arr + _sz, what, Comp()));\n\t\treturn res.first != _arr + _sz ? res.first : end();", ['C12']),
    ('xml-find-first-child-only', 'runtime/xml.cpp', "\t\t\twhile (result.first != result.second)\n\t\t\t\t(*result.first++).second->find(lwhat, eset, atag, aval, delim);", "\t\t\tif (result.first != result.second)\n\t\t\t\t(*result.first++).second->find(lwhat, eset, atag, aval, delim);", ['C32']),
    ('value-size-guard-off', 'runtime/message.cpp', "\t\t\tif(val_sz > FIX8_MAX_FLD_LENGTH - 1)\n\t\t\t\tthrow f8Exception(\"Value size too large\");\n", "", ['C03']),
    ('mem-control-first-only', 'runtime/persist.cpp', "\t_store.erase(0); // the control record is replaced, not kept from the first call\n", "", ['C26']),
    ('mem-range-stops-early', 'runtime/persist.cpp', "\t\t\tif (!itr->first || itr->first > finish)\n\t\t\t\tbreak;\n\t\t\tSession::SequencePair result(itr->first, itr->second);", "\t\t\tif (!itr->first || itr->first >= finish)\n\t\t\t\tbreak;\n\t\t\tSession::SequencePair result(itr->first, itr->second);", ['C26']),
    ('file-get-cstring', 'runtime/filepersist.cpp', "\tto.assign(buff, itr->second._size);", "\tbuff[itr->second._size < FIX8_MAX_MSG_LENGTH ? itr->second._size : FIX8_MAX_MSG_LENGTH - 1] = 0;\n\tto.assign(buff);", ['C26']),
    ('file-nearest-excludes-last', 'runtime/filepersist.cpp', "\t\tfor (unsigned startseqnum(requested); startseqnum <= last; ++startseqnum)\n\t\t{\n\t\t\tIndex::const_iterator", "\t\tfor (unsigned startseqnum(requested); startseqnum < last; ++startseqnum)\n\t\t{\n\t\t\tIndex::const_iterator", ['C26']),
    ('file-control-not-rewritten', 'runtime/filepersist.cpp', "\telse\n\t\titr->second = iprec._prec;\n\n\tif (lseek(_iod, 0, SEEK_SET) < 0)", "\telse\n\t\treturn true;\n\n\tif (lseek(_iod, 0, SEEK_SET) < 0)", ['C26']),
]


def main():
    sb = os.path.abspath(sys.argv[1])
    flt = sys.argv[2:]
    repo, verif = os.path.join(sb, 'repo'), os.path.join(sb, 'verif')
    env = dict(os.environ, VERIF=verif, REPO=repo, VERIF_SEED=os.environ.get('VERIF_SEED', '1'), VERIF_TIER='quick')
    results = []
    for name, fn, old, new, checks in M:
        if flt and not any(f in name for f in flt):
            continue
        path = os.path.join(repo, fn)
        src = open(path).read()
        if src.count(old) < 1:
            print('MUTANT %s: pattern not found in %s' % (name, fn)); results.append((name, 'n/a', 'pattern-missing')); continue
        open(path, 'w').write(src.replace(old, new, 1))
        try:
            for cid in checks:
                t0 = time.time()
                r = subprocess.run([os.path.join(verif, 'check'), cid, '--tier', 'quick'], env=env, cwd=verif, stdout=subprocess.PIPE, stderr=subprocess.STDOUT, text=True)
                viol = [l for l in r.stdout.splitlines() if l.startswith('VIOLATION')]
                verdict = 'caught' if (r.returncode == 1 and viol) else ('BUILD-FAIL' if r.returncode == 2 else 'MISSED')
                print('MUTANT %-28s %s: %s (%.0f s)' % (name, cid, verdict, time.time() - t0), flush=True)
                if verdict != 'caught':
                    print(r.stdout[-1500:])
                else:
                    print('   ' + '\n   '.join(r.stdout.splitlines()[:3])[:700])
                results.append((name, cid, verdict))
        finally:
            open(path, 'w').write(src)
            subprocess.run(['git', '-C', verif, 'checkout', '--', 'evidence'], stderr=subprocess.DEVNULL)
            subprocess.run('rm -f %s/replays/*/fail-*.json' % verif, shell=True)
    print(json.dumps(results))
    return 0 if all(v == 'caught' for _, _, v in results) else 1


if __name__ == '__main__':
    sys.exit(main())
