#!/usr/bin/env python3
"""Regenerates MANIFEST.json from the table below (single source of truth for what is claimed)."""
import json, os, sys

VERIF = os.path.dirname(os.path.dirname(os.path.abspath(__file__)))

# id: (engine, category, technique, level text, level note, design ref)
CLAIMED = {
    'C01': ('E1', 'exploration', 'property-based testing (Hypothesis) with differential oracle: reference FIX encoder + typed round-trip',
            'Generated messages of every type of FIX42UTEST and FIX44 are encoded, decoded and re-encoded by the real codec under ASan/UBSan; '
            'bytes are compared with an independent reference encoder and the decoded typed values with the generated ones. Exploration, not proof: '
            'thousands (quick) to >100k (thorough) generated messages.',
            'Schema positions/types are read from the compiled trait tables (C13 ties them to the XML); float precision fixed at the library default 2.', '4/C01'),
    'C02': ('E1', 'exploration', 'property-based testing (Hypothesis) with a validity predicate over the wire bytes (independent tokeniser)',
            'Every encoded message is checked byte-wise by an independent tokeniser/validator: framing fields, BodyLength, CheckSum, token syntax, '
            'section order, schema position order under random insertion orders, group structure.',
            'Same generator as C01; the validator knows the schema only through the dumped trait tables.', '4/C02'),
    'C03': ('E2', 'exploration', 'coverage-guided fuzzing (libFuzzer, ASan+UBSan) of Message::factory + structure-aware adversarial generators (Hypothesis) for decode and encode',
            'Totality and memory safety of the codec are searched with a libFuzzer campaign on factory() (seeded with every message type, tag dictionary), '
            'a structure-aware generator for the classes a byte fuzzer reaches slowly (huge tags/values/counts, lying Length fields, truncations) and '
            'large-message encoder inputs right up to the buffer limit. Sanitizer reports, traps, foreign exceptions and hangs fail.',
            'Open known finding: encode into the fixed 8192 byte area overflows for BodyLength > 8184 (excluded by construction and counted).', '4/C03'),
    'C07': ('E2', 'exploration', 'coverage-guided fuzzing (libFuzzer, ASan+UBSan) with the byte-sum oracle inside the target',
            'calc_chksum over exactly sized heap blocks at generated misalignments, offsets and lengths (incl. len=-1) compared with a byte-wise sum; '
            'ASan flags any read outside the block.',
            'Only the 64-bit code path is compiled on this platform.', '4/C07'),
    'C04': ('E1', 'exploration', 'property-based testing (Hypothesis): conforming messages + single generated deviations vs a reference strict validator',
            'Reference-encoded conforming messages must be accepted with every field retained (typed comparison); each generated deviation class '
            '(checksum, unknown tag at any boundary, tag >= 65536 aliasing, misplaced header/body field, duplicate, missing mandatory, bad group start) must throw.',
            'Inputs outside both sets (e.g. count != number of elements, which the statement does not list) are not generated.', '4/C04'),
    'C05': ('E1', 'exploration', 'property-based testing (Hypothesis): metamorphic relation strict-vs-permissive + token-multiset oracle on the re-encoding',
            'Conforming messages with 1-4 unknown tokens at generated boundaries (header/body/trailer/group elements): accepted, known fields equal the '
            'generated values, re-encoding well-framed with token multiset == known + unknown (each once), known order preserved.',
            'Unknown tags are tags absent from the whole dictionary; where in its section an unknown token is re-emitted is not constrained.', '4/C05'),
    'C06': ('E1', 'exploration', 'property-based testing (Hypothesis): round-trip of arbitrary byte content through every Length/data pair',
            'All Length/data pairs reachable in header, body, trailer and groups with contents over all 256 byte values (SOH, =, NUL, checksum look-alikes), '
            'lengths 0..2047; decode of the reference encoding, library encode, re-encode.',
            'Messages are kept below 7000 bytes (the encoder buffer limit is C03\'s subject).', '4/C06'),
    'C08': ('E1', 'exploration', 'exhaustive int32 sweep (in-process reference snprintf) + property-based testing (Hypothesis) with exact rational oracle for doubles',
            'Quick: 2 M ints (windows + stride sample) and 40 k generated doubles; thorough: all 2^32 ints (exhaustive for the int half) and 1.2 M doubles over tie, '
            'near-tie, edge, tiny and random-bit classes at every precision 0..9; correct rounding and parse-back are decided with fractions.Fraction.',
            'Tie direction is not constrained; parse-back tolerance is the weaker reading of "half a unit in the last place".', '4/C08'),
    'C09': ('E1', 'exploration', 'property-based testing (Hypothesis; thorough: every day 1970-2099 enumerated) against Python datetime',
            'Every field rendering/parsing of generated instants (UTCTimestamp 21/17, UTCTimeOnly, UTCDateOnly, LocalMktDate, MonthYear 6/8) and the log renderer at 0..9 decimals.',
            'TZ=UTC; proleptic Gregorian via datetime.', '4/C09'),
    'C10': ('E1', 'exploration', 'exhaustive enumeration per realm field + property-based testing (Hypothesis) against a linear-scan membership oracle',
            'For every realm field of both schemas: all chars, int windows, string near-misses (prefixes, extensions, case flips, all strings <= 2 chars), '
            'float neighbours enumerated completely; random values on top. Index, description, is_valid and the printed line are compared with set membership / range inclusion.',
            'Stock schemas contain set realms only for char/string/int; range realms are exercised through C13-generated schemas.', '4/C10'),
    'C12': ('E1', 'exploration', 'exhaustive key enumeration vs linear-scan oracle + model-based operation sequences (Hypothesis) on presorted_set',
            'find_be, trait-set lookups for all 65536 tags, message/reverse tables with near-miss keys are enumerated completely; presorted_set (generic and '
            'FieldTrait specialisation) is driven by generated insert/find/at/clear/copy sequences against a Python sorted list, checked after every step.',
            'Only insert().second, find results, at() and iteration contents are asserted.', '4/C12'),
    'C11': ('E1', 'exploration', 'property-based testing (Hypothesis) with differential oracle: clone/copy_legal/move_legal results vs reference encoding',
            'clone(), copy_legal and move_legal results of generated messages (nested groups included) each encode to the reference bytes; source destroyed under ASan after move.',
            'Each object is encoded once.', '4/C11'),
    'C24': ('E1', 'exploration', 'property-based testing (Hypothesis) on a virtual clock against a week-cyclic reference model + exhaustive weekday-string enumeration',
            'Generated daily/weekly schedules (all 49 day pairs, utc offsets, direct and via Configuration XML) sampled every 60 s over 3-4 weeks on an interposed clock, '
            'threaded like activation_service and stateless like the login test; decode_dow over all 866 496 strings of length <= 3.',
            'Local instants before 1970 are not generated.', '4/C24'),
    'C32': ('E1', 'exploration', 'property-based testing (Hypothesis) tree round trip + path-lookup reference walk; coverage-guided fuzzing (libFuzzer) of the parser on bytes',
            'Generated element trees serialised with random reference forms/quotes/line breaks are parsed and compared node by node (tags, attribute maps decoded once, text, order); '
            'find() results for hit and near-miss paths are compared with a reference walk; XmlElement::Factory is fuzzed on byte strings <= 4 KiB under ASan/UBSan.',
            'noextensions flag set; xi:include excluded (file access); text as a single run.', '4/C32'),
    'C26': ('E1', 'exploration', 'model-based property-based testing (Hypothesis): generated operation histories vs a dict + control-record model, checked after every step',
            'Histories of 3-40 store operations (put message incl. number 0 and occupied numbers, put control, get, control get, last, nearest-highest, range get, '
            'clean close/reopen for the file backend) run against fresh MemoryPersister and FilePersister objects under ASan/UBSan; each result is compared with a map model.',
            'Sequence number 0 is only generated for put; messages <= Persister::MaxMsgLen; reopen histories start with a control store (the other order is C27\'s subject); '
            'the optional BDB/memcached/redis backends are compiled out in this build.', '4/C26 and 10'),
    'C15': ('E1', 'exploration', 'property-based testing (Hypothesis): metamorphic relation over chunk schedules + generated preamble corruptions against the real FIXReader on an in-memory socket',
            'Generated protocol-valid streams (1-12 messages up to the 8172-byte body limit, both FIX versions) are delivered to the real FIXReader/Connection through an in-memory '
            'Poco socket implementation under generated chunk schedules (all-ones, inside the preamble, inside BodyLength/CheckSum) in the coroutine and the threaded model; the strings '
            'handed to Session::process must equal the sent messages for every chunking. One of 17 preamble corruptions after k good messages must stop the reader with an error and '
            'hand over nothing but the k good messages. ASan/UBSan on.',
            'The session above the reader is a logged-on initiator fed a protocol-valid stream; corruptions are the listed ones only (a numeric in-range but wrong BodyLength is not generated).', '4/C15 and 10.7'),
    'C16': ('E1', 'exploration', 'model-based property-based testing (Hypothesis): generated session histories against a sequence-number model, checked after every step',
            'Histories of sends, batches, inbound traffic that makes the session answer (TestRequest, undecodable message, ResendRequest), supervision ticks on a virtual clock and restarts on '
            'the same store run against the real Session/Connection/FIXWriter (initiator and acceptor, memory and file persister, default/configured/recovered start numbers, short socket writes); '
            'every new outbound message must carry the model number and the persisted control record must equal the session numbers after every step.',
            'Counterparty always in sequence; a gap-fill that announces NewSeqNo n moves the expected numbering to n (C18 semantics).', '4/C16 and 10.7'),
    'C17': ('E1', 'exploration', 'model-based property-based testing (Hypothesis): stored copy vs transmitted bytes over generated session histories',
            'Same histories as C16; the socket byte stream is framed independently and for every new application message Persister::get(n) must return exactly the transmitted bytes, '
            'for every administrative message number it must fail; probed before every restart and at the end.',
            'Retransmissions and gap-fills are not new messages; numbers never used are not probed.', '4/C17 and 10.7'),
    'C18': ('E1', 'exploration', 'property-based testing (Hypothesis): coverage-walk oracle over the reply stream of generated stores and request ranges',
            'A sending history (application messages = stored, administrative replies = holes; memory, file or no persister; initiator and acceptor; both FIX versions) is produced through the '
            'real session, then a ResendRequest [B,E] inside the sent range is fed and the reply stream is walked with a cursor: replayed messages must carry their number, PossDupFlag=Y, '
            'OrigSendingTime = original SendingTime and the original content; gap-fills must start at the cursor and skip no stored message of the range; nothing else may be sent; the range '
            'must be covered; the session must be continuous again and the next new message numbered max(last+1, cursor). A second request checks that the session answers again.',
            'Ranges beyond what was sent are not generated; a gap-fill may extend over numbers that were not requested.', '4/C18 and 10.7'),
    'C19': ('E1', 'exploration', 'property-based testing (Hypothesis): generated inbound probes in four session states against a protocol model of the expected number',
            'Probes (number equal/lower/higher, PossDupFlag, OrigSendingTime, CompIDs, "34=" look-alikes in header sub-IDs, corrupt variants) are fed to a real session brought into continuous, '
            'resend-request-sent, test-request-sent or logon-sent state through real traffic; delivery, ResendRequest, Logout and Reject are checked as implications of the statement.',
            'The application callback is the sample applications\' (deliver unless enforce() objects); implications only, see assumptions in the evidence file.', '4/C19 and 10.7'),
    'C22': ('E1', 'exploration', 'model-based property-based testing (Hypothesis) on a virtual clock: generated timelines against a supervision model, two-model oracle for the open finding',
            'Timelines of clock advances (ms resolution, biased to the H and 1.2H boundaries), supervision ticks (the real heartbeat_service), sends and inbound traffic for H in 1..120; at every '
            'tick the outbound messages are compared with what the model demands (Heartbeat, TestRequest, Logout+termination) and forbids (Logout before the TestRequest had its period).',
            'Whole-second tolerance of the supervisor accepted; open known finding (Logout one tick after the TestRequest, pinned by the repository\'s own unit test) decided with the defective model.', '4/C22 and 10.7'),
    'C23': ('E1', 'exploration', 'property-based testing (Hypothesis): generated logon configurations (acceptor, initiator) and SessionID pairs against the stated acceptance rules and comparison laws',
            'Acceptor: CompID enforcement, client lists, TargetCompID right/wrong, HeartBtInt echo, ResetSeqNumFlag with and without stored numbers; initiator: mirrored / partly wrong Logon responses; '
            'SessionID == / != over all equal/unequal combinations of the two CompIDs, built from parts and from the id string.',
            'No SessionConfig object (persister handed in, as the unit tests do); client entries without IP restriction.', '4/C23 and 10.7'),
    'C20': ('E1', 'exploration', 'model-based property-based testing (Hypothesis): generated loss/reconnect histories driven by a Python model of a conformant FIX counterparty',
            'A conformant counterparty model (own numbering and store, PossDup replays, gap-fills for administrative messages, answers a ResendRequest at once or after one more new message) '
            'drives the real session through generated histories of delivered and lost messages and reconnects whose Logon may be above the expected number; the session must never log out '
            'or terminate, every application message must reach the application at least once, and at quiescence the expected number must equal the counterparty\'s next number.',
            'Quiescence of finite histories stands in for "eventually"; the session under test runs in the coroutine model on the in-memory socket with a MemoryPersister.', '4/C20 and 10.7'),
    'C21': ('E1', 'exploration', 'property-based testing (Hypothesis): generated schedules of sends, pumps, drops and restarts over two real fix8 sessions wired back to back',
            'An initiator and an acceptor (real Session/Connection pairs, FilePersisters) are connected through the harness, which decides when bytes in flight are delivered or lost; after '
            'every failure both sides are rebuilt from their files and log on again. At the final quiescence every application message must have reached the peer application at least once, '
            'first deliveries must be in send order, re-deliveries must carry PossDupFlag=Y, no Logout may have been sent and both sessions must be established.',
            'Failures between operations only; in-process restarts; sessionwrapper.hpp socket plumbing is not exercised (no TCP).', '4/C21 and 10.7'),
    'C25': ('E3', 'exploration', 'generated concurrent workloads (Hypothesis) on real threads, ASan/UBSan and ThreadSanitizer builds, with a numbering/exactly-once/stored-copy oracle',
            '2-8 real threads run generated scripts of send / send_batch / yield against one real session in the threaded, pipelined and coroutine process model (memory and file persister); '
            'the wire must carry exactly next..next+n-1 in increasing order, every ClOrdID once, every stored copy must equal the wire bytes, every send must be accepted; each workload runs '
            'in the ASan/UBSan build and about half of them again under ThreadSanitizer (guarded happens-before annotations on the FastFlow queue wrapper, suppressions limited to ff:: frames).',
            'Thread schedules are sampled by the OS scheduler, not enumerated; ThreadSanitizer covers the interleavings that ran in the happens-before sense only.', '4/C25 and 10.7'),
    'C28': ('E3', 'exploration', 'generated concurrent workloads (Hypothesis) on real producer threads against the real FileLogger, with injected stalls inside the queue push and short-lived loggers; exactly-once / order / sequence oracle on the file',
            '1-8 producer threads submit generated scripts of lines at generated levels through Logger::send; stop() is called behind the last submit or in mid-run; the file (read after stop() '
            'returned) must hold every required line exactly once, no line at a disabled level, each producer in submission order, sequence numbers 1..n, and send() must have returned true '
            'for every accepted line. ASan/UBSan build.',
            'Schedules sampled by the OS scheduler; lines racing with stop() are only required to appear at most once.', '4/C28 and 10.7'),
    'C29': ('E1', 'exploration', 'property-based testing (Hypothesis): generated directory states and rotation counts against a directory model, under ASan with std::vector capacity annotations',
            'Rotation counts 0..1100, append/force flags, sparse pre-existing generation sets (with .idx companions for the store) and unrelated files; FileLogger construction/rotate and '
            'FilePersister purge rotation run for real and the resulting directory is compared file by file with a model; _GLIBCXX_SANITIZE_VECTOR makes reads beyond a vector\'s size visible.',
            'The oldest kept generation without a predecessor may stay or go; compression off.', '4/C29 and 10.7'),
    'C30': ('E3', 'exploration', 'generated schedules (Hypothesis) driving real threads through guarded yield points in the queue, ticket-order oracle from the event log; free-running stress runs',
            'The schedule vector is part of the generated case: real producer/consumer threads are serialised by a baton and switch at the FIX8_VERIF yield points between the atomic steps of '
            'uMPMC_Ptr_Queue::push/pop, so a failing interleaving shrinks and replays deterministically. Exactly-once, ticket (reservation) order and the emptiness rule are decided from the '
            'event log; one case in ten runs 2-16 free threads without the hook.',
            'Interleavings at hook-point granularity under sequential consistency; bounded operation counts (<= 6 pushes per producer).', '4/C30 and 10.7'),
    'C31': ('E3', 'exploration', 'model-based property-based testing (Hypothesis): the real Timer thread on an interposed virtual clock against a pending-set model',
            'Generated scripts of schedule / advance / clear steps over up to 12 events (delays 1-200 ms, repeat flags, callback result scripts); the clock is virtual, the harness waits for the '
            'timer thread to go round its loop, then compares what fired - and when - with a model: nothing early, due order, repeats one interval after each run until false, nothing after clear.',
            'Equal due times may fire in either order; the timer thread polls, so real-time latency is not part of the claim.', '4/C31 and 10.7'),
    'C13': ('E1', 'exploration', 'property-based testing over generated programs (Hypothesis): schema model -> XML -> f8c -> C++ compiler -> dlopen; metadata vs the generator\'s model, messages vs the reference codec',
            'Generated schemas (every field type of the compiler\'s table except the two unimplemented TZ types, set/range realms, Length/data pairs, nested and reused components and groups, '
            'small and 150-300 field schemas, with and without -f) are compiled by the working tree\'s f8c; the generated code is compiled under ASan/UBSan and loaded; the field table, realms, '
            'message table and every message/group trait list (members, order, mandatory flags after component expansion, group structure) are compared with the model, and 12 messages per '
            'schema are round-tripped against the reference codec.',
            'No shrinking (each candidate is a compiler run); mandatory flags of group members inside an optional component accepted either way; descriptions kept identifier-like and distinct per field.', '4/C13 and 10.9'),
    'C14': ('E1', 'exploration', 'property-based testing over generated programs (Hypothesis) with hash-collision construction: one count field, two or three definitions, collisions solved over GF(2)',
            'Schemas in which one repeating-group count field carries different definitions in different messages (disjoint members, an extra member, a nested group against none) and, in about '
            'half of them, definitions engineered to collide under the compiler\'s structural hash (equality re-computed and asserted in Python); pipeline and oracle as C13: every message must '
            'get its own definition and round-trip.',
            'Pure reorderings of the same members are not the generated difference; no shrinking.', '4/C14 and 10.9'),
    'C27': ('E1', 'fault_enumeration', 'generated store histories (Hypothesis) x exhaustive enumeration of every crash point (completed write/lseek) of each history, model of completed operations as oracle',
            'For every generated history of message/control stores (any order, message first included) the executor counts the completed write/seek system calls N on the two files and, for '
            'every k <= N, runs the history in a forked child that dies right after call k; the parent reopens the store, reads everything back, stores further records, reopens and reads '
            'back again. Completed stores must be intact, the store in flight may be visible or not, nothing else may appear, the control record must be the last completed (or in-flight) one.',
            'Crash = process death between system calls (no torn writes, no file-system reordering); histories are sampled, crash points per history are exhaustive; unsanitized build (fork cost).', '4/C27 and 10.8'),
}


ALL = ['C%02d' % i for i in range(1, 33)]

ENGINES = [
    {'name': 'E1', 'path': 'harness/py/pbt.py', 'serves_properties': [], 'kind_free_text':
        'Hypothesis 6.168 strategies / state machines in 1-16 worker processes driving persistent sanitizer-instrumented C++ executors '
        '(build/asan/fx ...) built from /repo working tree; oracles (reference codec, models) in Python'},
    {'name': 'E2', 'path': 'harness/cpp/fuzz_*.cpp', 'serves_properties': [], 'kind_free_text':
        'libFuzzer targets (clang -fsanitize=fuzzer,address,undefined) with the semantic oracle inside the target'},
    {'name': 'E3', 'path': 'harness/cpp/fx_thr.cpp (loggers, queue, timer) and fx_sess.cpp (sess conc)', 'serves_properties': [], 'kind_free_text':
        'generated concurrent workloads over real threads (ASan and TSan builds), generated schedules driven through guarded yield points (C30), the real timer thread on a virtual clock (C31)'},
]


def main():
    checks = []
    for pid in ALL:
        if pid not in CLAIMED:
            continue
        eng, cat, tech, text, note, ref = CLAIMED[pid]
        checks.append({
            'property_id': pid,
            'quick_cmd': './check %s --tier quick' % pid,
            'thorough_cmd': './check %s --tier thorough' % pid,
            'evidence_file': 'evidence/%s.json' % pid,
            'replay_cmd_template': './check %s --replay {path}' % pid,
            'engine': eng,
            'level_claimed': {'category': cat, 'text': text, 'design_ref': 'DESIGN.md section ' + ref},
            'level_note': note,
            'technique': tech,
        })
        for e in ENGINES:
            if e['name'] == eng:
                e['serves_properties'].append(pid)
    na = [{'property_id': p, 'reason': 'not claimed: check designed (DESIGN.md section 4) but not built; not a limit of the technique (DESIGN.md section 10)'}
          for p in ALL if p not in CLAIMED]
    m = {
        'version': 1,
        'setup_cmd': './setup.sh',
        'hooks': {
            'guard': 'FIX8_VERIF',
            'enable': 'all harness builds compile /repo sources with -DFIX8_VERIF (build/Makefile CPPFLAGS)',
            'baseline_off_cmd': 'cd /repo && make -k check',
            'source_commits': ['caf8e87', '829e846'],
            'add_only': False,
        },
        'engines': ENGINES,
        'checks': checks,
        'notes': 'Hook 829e846 (include/fix8/ff/mpmc/MPMCqueues.hpp): FIX8_VERIF_POINT yield points in uMPMC_Ptr_Queue::push/pop, a call through a function pointer that is null unless a harness installs one. Hook caf8e87 (include/fix8/ff_wrapper.hpp): ThreadSanitizer acquire/release annotations around the FastFlow queue wrapper, compiled only with -DFIX8_VERIF and -fsanitize=thread; '
                 'it turns three one-line wrapper functions into multi-line ones, hence add_only=false (no behaviour changes with the guard off). '
                 'All checks rebuild their executors from /repo working tree (make -C build, -MMD deps) before running. '
                 'known_findings.json lists repaired defects (fixed:) and open findings; see DESIGN.md.',
        'not_applicable': na,
    }
    with open(os.path.join(VERIF, 'MANIFEST.json'), 'w') as f:
        json.dump(m, f, indent=1)
    print('MANIFEST: %d checks, %d not claimed' % (len(checks), len(na)))


if __name__ == '__main__':
    main()
