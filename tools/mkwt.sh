#!/bin/sh
# Scratch worktree of /repo for seeded-change experiments (outside /repo and /verif), with /repo's in-tree build output copied in so
# that `make -k check -j16` is incremental.   usage: tools/mkwt.sh NAME   -> /tmp/seed/NAME ;   remove: tools/mkwt.sh -r NAME
set -e
if [ "$1" = "-r" ]; then git -C /repo worktree remove --force /tmp/seed/$2 2>/dev/null || rm -rf /tmp/seed/$2; git -C /repo worktree prune; exit 0; fi
mkdir -p /tmp/seed
git -C /repo worktree add --detach /tmp/seed/$1 HEAD >/dev/null 2>&1
rsync -a --exclude .git /repo/ /tmp/seed/$1/
mkdir -p /tmp/seed/$1/OUT
echo /tmp/seed/$1
