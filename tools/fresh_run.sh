#!/bin/sh
# Reproduce the acceptance run: offline environment, VERIF_SEED (default 1), tier quick (or $1), setup, then every
# claimed check once, each with its evidence file removed first.  The evidence files committed under evidence/ must
# come from this script with the defaults and nothing else (never from --examples/--workers experiments).
# usage: tools/fresh_run.sh [quick|thorough] [ID ...]     exit 0 iff every check was quiet and rewrote its evidence
cd "$(dirname "$0")/.." || exit 2
tier=${1:-quick}; [ $# -gt 0 ] && shift
export CARGO_NET_OFFLINE=true GOPROXY=off PIP_NO_INDEX=1 VERIF_SEED=${VERIF_SEED:-1} VERIF_TIER=$tier
ids=${*:-$(jq -r '.checks[].property_id' MANIFEST.json)}
$(jq -r .setup_cmd MANIFEST.json) || { echo "setup failed"; exit 2; }
bad=0
for id in $ids; do
    cmd=$(jq -r --arg id "$id" --arg t "${tier}_cmd" '.checks[] | select(.property_id==$id) | .[$t]' MANIFEST.json)
    ev=$(jq -r --arg id "$id" '.checks[] | select(.property_id==$id) | .evidence_file' MANIFEST.json)
    rm -f "$ev"
    t0=$(date +%s)
    out=$(sh -c "$cmd" 2>&1); rc=$?
    t1=$(date +%s)
    echo "$out" | grep -E "^($id |VIOLATION|KNOWN-FINDING|BUILD FAILED|NOTE)"
    st=ok
    [ $rc -ne 0 ] && st="EXIT $rc"
    echo "$out" | grep -q '^VIOLATION' && st="VIOLATION"
    [ -s "$ev" ] || st="$st NO-EVIDENCE"
    [ "$st" = ok ] || { bad=1; echo "$out" | tail -40; }
    echo "== $id $tier seed=$VERIF_SEED: $st ($((t1 - t0)) s)"
done
exit $bad
