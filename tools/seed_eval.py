#!/usr/bin/env python3
"""Evaluate seeded changes produced by independent sub-agents (development tool, not a registered check).

For each NAME (worktree /tmp/seed/NAME left by the agent WITH its change applied, deliverables in OUT/):
  1. confirm in the worktree: library builds, the repository's unit tests pass, the agent's demonstration FAILS with the change
     and PASSES without it;
  2. keep it as /verif/seeded/<name>/ (patch.diff, demonstration, meta.json with what was run);
  3. apply the patch to /repo, run the quick tier of the listed checks, undo the patch straight afterwards (git checkout -- .);
  4. a shrunk failing case found by the check is kept as replays/<ID>/reg-seed-<name>.json when it passes on the unchanged tree;
  5. remove the worktree.
usage: tools/seed_eval.py [--rerun] NAME[:CHECK,CHECK...] ...      (default check = property in OUT/meta.json; --rerun: only step 3/4 for a kept change)
"""
import os, sys, subprocess, json, shutil, glob, time

VERIF = os.path.dirname(os.path.dirname(os.path.abspath(__file__)))


def sh(cmd, cwd=None, timeout=3600):
    r = subprocess.run(cmd, shell=True, cwd=cwd, stdout=subprocess.PIPE, stderr=subprocess.STDOUT, text=True, timeout=timeout)
    return r.returncode, r.stdout


def unit_tests(wt):
    rc, out = sh('make -j16 >/dev/null 2>&1; make -k check -j16 2>&1 | grep -E "^(PASS|FAIL|ERROR):"', cwd=wt)
    lines = out.strip().splitlines()
    return len([l for l in lines if l.startswith('PASS')]) == 4 and not [l for l in lines if not l.startswith('PASS')], lines


def demo(wt):
    rc, out = sh('sh OUT/build_demo.sh 2>&1 | tail -5', cwd=wt)
    exe = None
    for cand in ('OUT/demo', 'demo', 'OUT/demo.sh'):
        if os.path.exists(os.path.join(wt, cand)):
            exe = cand
            break
    if exe is None:
        return None, 'no demo executable; build said: ' + out
    rc, out2 = sh(('sh ' if exe.endswith('.sh') else './') + exe, cwd=wt, timeout=900)
    return rc, out2[-1500:]


def run_checks(dst, checks, name):
    """apply the kept patch to /repo, run the quick tier of the checks, undo the patch; keep shrunk failures as regression replays"""
    rc, out = sh('git -C /repo status --porcelain --untracked-files=no')
    if out.strip():
        print('   /repo has uncommitted changes - refusing to apply'); return None
    rc, out = sh('git -C /repo apply %s' % os.path.join(dst, 'patch.diff'))
    if rc != 0:
        print('   patch does not apply to /repo: ' + out); return None
    runs = {}
    try:
        for cid in checks:
            t0 = time.time()
            rc, out = sh('./check %s --tier quick' % cid, cwd=VERIF, timeout=7200)
            viol = [l for l in out.splitlines() if l.startswith('VIOLATION')]
            verdict = 'caught' if rc == 1 and viol else ('build-failed' if rc == 2 else 'missed')
            first = next((l for l in out.splitlines() if l.strip() and not l.startswith('[build')), '')[:400]
            runs[cid] = {'verdict': verdict, 'seconds': round(time.time() - t0), 'first_line': first, 'violation_line': viol[0] if viol else None}
            print('   check %s: %s (%.0f s)  %s' % (cid, verdict, time.time() - t0, first[:200]), flush=True)
            if verdict == 'missed':
                print('      ' + '\n      '.join(out.splitlines()[-6:]))
    finally:
        sh('git -C /repo checkout -- .')
        sh('git checkout -- evidence', cwd=VERIF)
    for cid in checks:
        for f in glob.glob(os.path.join(VERIF, 'replays', cid, 'fail-*.json')):
            rc, out = sh('./check %s --replay %s' % (cid, f), cwd=VERIF)
            tgt = os.path.join(VERIF, 'replays', cid, 'reg-seed-%s.json' % name.lstrip('s'))
            if rc == 0 and not os.path.exists(tgt):
                os.replace(f, tgt)
            else:
                os.remove(f)
    return runs


def main():
    results = []
    rerun = '--rerun' in sys.argv
    for arg in [a for a in sys.argv[1:] if a != '--rerun']:
        name, _, cl = arg.partition(':')
        wt = '/tmp/seed/' + name
        rec = {'name': name}
        if rerun:
            dst = os.path.join(VERIF, 'seeded', name.lstrip('s'))
            meta = json.load(open(os.path.join(dst, 'meta.json')))
            checks = cl.split(',') if cl else [meta.get('property')]
            runs = run_checks(dst, checks, name)
            if runs is not None:
                meta.setdefault('evaluation', {}).setdefault('checks_quick_tier_with_change_applied_to_repo', {}).update(runs)
                json.dump(meta, open(os.path.join(dst, 'meta.json'), 'w'), indent=1)
            continue
        try:
            meta = json.load(open(os.path.join(wt, 'OUT', 'meta.json')))
        except Exception as e:
            print('%s: no usable OUT/meta.json (%s)' % (name, e)); continue
        pid = meta.get('property') or name.lstrip('s')[:3]
        checks = cl.split(',') if cl else [pid]
        # 1. confirm
        ok_tests, tl = unit_tests(wt)
        rc_with, out_with = demo(wt)
        sh('git apply -R OUT/patch.diff && make -j16 >/dev/null 2>&1', cwd=wt)
        rc_without, out_without = demo(wt)
        sh('git apply OUT/patch.diff', cwd=wt)
        confirmed = ok_tests and rc_with not in (0, None) and rc_without == 0
        rec.update(unit_tests_pass_with_change=ok_tests, demo_rc_with_change=rc_with, demo_rc_without_change=rc_without, confirmed=confirmed)
        print('%s: unit tests %s, demo with change rc=%s, without rc=%s -> %s' % (name, 'pass' if ok_tests else 'FAIL ' + str(tl), rc_with, rc_without,
                                                                                'confirmed' if confirmed else 'NOT CONFIRMED'), flush=True)
        if not confirmed:
            print(out_with[-600:]); print(out_without[-600:])
            results.append(rec)
            continue
        # 2. keep
        dst = os.path.join(VERIF, 'seeded', name.lstrip('s'))
        os.makedirs(dst, exist_ok=True)
        for fn in os.listdir(os.path.join(wt, 'OUT')):
            p = os.path.join(wt, 'OUT', fn)
            if os.path.isfile(p) and os.path.getsize(p) < 200000 and not os.access(p, os.X_OK) or fn.endswith('.sh'):
                shutil.copy(p, dst)
        runs = run_checks(dst, checks, name)
        if runs is None:
            rec['applies'] = False; results.append(rec); continue
        rec['checks'] = runs
        meta['evaluation'] = {'confirmed_by': 'tools/seed_eval.py: unit tests pass with the change; demonstration fails with it and passes without it',
                              'unit_tests_pass_with_change': ok_tests, 'demo_rc_with_change': rc_with, 'demo_rc_without_change': rc_without,
                              'checks_quick_tier_with_change_applied_to_repo': runs}
        json.dump(meta, open(os.path.join(dst, 'meta.json'), 'w'), indent=1)
        # 5. remove the worktree
        sh('%s/tools/mkwt.sh -r %s' % (VERIF, name))
        results.append(rec)
    print(json.dumps(results))


if __name__ == '__main__':
    main()
