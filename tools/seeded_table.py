#!/usr/bin/env python3
"""Print the markdown table of seeded changes (DESIGN.md section 10.11) from seeded/*/meta.json."""
import json, glob, os
V = os.path.dirname(os.path.dirname(os.path.abspath(__file__)))
print('| id | property | change (by an independent sub-agent) | needs to manifest | checks run (quick tier, change applied to /repo) |')
print('|---|---|---|---|---|')
for d in sorted(glob.glob(os.path.join(V, 'seeded', '*'))):
    try:
        m = json.load(open(os.path.join(d, 'meta.json')))
    except Exception:
        continue
    ev = m.get('evaluation', {}).get('checks_quick_tier_with_change_applied_to_repo', {})
    cell = lambda s, n: (str(s or '').replace('\n', ' ').replace('|', '/')[:n]).strip()
    verdicts = ', '.join('%s: **%s**' % (k, v['verdict']) for k, v in sorted(ev.items()))
    print('| %s | %s | %s | %s | %s |' % (os.path.basename(d), m.get('property'), cell(m.get('summary'), 230), cell(m.get('needs_to_manifest'), 200), verdicts))
