#!/usr/bin/env python3
"""Append an entry to known_findings.json (development tool; checks never write that file).
usage: tools/add_finding.py PROPERTY ID fixed COMMIT REPRODUCER "what"    |    PROPERTY ID open - REPRODUCER "what" """
import json, sys, os
V = os.path.dirname(os.path.dirname(os.path.abspath(__file__)))
prop, fid, status, commit, repro, what = sys.argv[1:7]
p = os.path.join(V, 'known_findings.json')
d = json.load(open(p))
d['findings'] = [f for f in d['findings'] if not (f['property'] == prop and f['id'] == fid)]
e = {'property': prop, 'id': fid, 'status': status, 'reproducer': repro, 'what': what}
if status == 'fixed':
    e['commit'] = commit
    e['line'] = 'fixed: property=%s %s %s' % (prop, commit, what)
else:
    e['line'] = 'KNOWN-FINDING: property=%s %s [%s]' % (prop, what, fid)
assert os.path.exists(os.path.join(V, repro)), repro
d['findings'].append(e)
json.dump(d, open(p, 'w'), indent=1)
print('known_findings: %d entries' % len(d['findings']))
