"""C13 (schema compiler output implements the schema) and C14 (distinct group definitions never share metadata):
generated schemas -> f8c (built from /repo's working tree) -> generated C++ compiled into a shared object -> loaded by the executor,
metadata compared with the generator's own model, generated messages round-tripped against the reference codec."""
import os, json, hashlib
import pbt, fixref, schema_gen as sg
from pbt import Violation
from hypothesis import strategies as st, HealthCheck, settings, given, seed as hseed

MSGS_PER_SCHEMA = 12


def realm_expect(f):
    r = f['realm']
    if not r:
        return None
    return {'kind': r['kind'], 'vals': [v for v, d in r['vals']], 'descs': [d for v, d in r['vals']]}


class SchemaCheck:
    level = 'exploration'
    build = [('plain', 'f8c'), ('asan', 'fx')]
    workers = 12
    family = 'general'

    def __init__(self, tier):
        self.tier = tier
        if tier == 'thorough':
            self.examples = self.thorough_examples
            self.workers = 16

    def make_executor(self):
        return pbt.Executor(timeout=120.0)

    no_shrink = True          # every candidate costs a compiler run: the first failing schema is reported as found (schemas are small by construction)

    def strategy(self):
        big = (150, 300) if self.tier == 'thorough' else (80, 120)      # one schema in twenty is large (table-size effects); the quick tier keeps it compilable in seconds
        return st.tuples(sg.st_schema(self.family, big), st.integers(0, 2 ** 32 - 1), st.booleans()).map(lambda t: {'model': t[0], 'r': t[1], 'all_fields': t[2]})

    # ------------------------------------------------------------------------------------------
    def run(self, case, ex):
        model = case['model']
        if not model['msgs']:
            return {}
        tag = 'w%d_%s' % (os.getpid(), hashlib.sha1(pbt.jdump(model).encode()).hexdigest()[:10])
        work = os.path.join(pbt.scratch_root(), 'schemas')
        so, log = sg.compile_schema(model, work, tag, case.get('all_fields', False))
        xml = sg.to_xml(model)

        def fail(msg):
            raise Violation('%s: %s\n schema:\n%s' % (self.id, msg, xml if len(xml) < 6000 else xml[:6000] + '\n...'))
        if so is None:
            fail('the compiler failed on a valid schema or its output does not compile:\n' + log)
        try:
            try:
                d = ex.call('schema ' + so)
            except pbt.ExecutorDied as e:
                fail('loading the compiled schema crashed: ' + str(e)[:2000])
            self.compare_metadata(model, d, fail, case.get('all_fields', False))
            info = self.round_trips(model, so, d, case['r'], ex, fail)
        finally:
            ex.close()                                      # the shared object stays mapped in the executor: start a fresh one for the next schema
            fixref._schema_cache.pop(so, None)
            import shutil
            shutil.rmtree(os.path.dirname(so), ignore_errors=True)
        return info

    def compare_metadata(self, model, d, fail, all_fields=False):
        ftab = sg.field_table(model)
        used = sg.used_fields(model)
        # fields: number, name, type, realm
        # f8c emits the fields that are used by a message, the header or the trailer; with -f (all_fields) every defined field
        want_fields = {num: (name, typ) for name, (num, typ) in ftab.items() if all_fields or name in used}
        got_fields = {int(k): v for k, v in d['fields'].items()}
        for num, (name, typ) in want_fields.items():
            g = got_fields.get(num)
            if g is None:
                fail('field %d (%s) is missing from the generated field table' % (num, name))
            if g['name'] != name:
                fail('field %d is called %r in the generated table, the schema calls it %r' % (num, g['name'], name))
        extra = sorted(set(got_fields) - set(want_fields))
        if extra:
            fail('the generated field table holds fields the schema does not define: %s' % extra)
        for f in model['fields']:
            if f['num'] not in want_fields:
                continue
            g = got_fields[f['num']]
            r = realm_expect(f)
            gr = g.get('realm')
            if r is None:
                if gr is not None:
                    fail('field %d %s has no enumerated values in the schema but a realm in the generated code' % (f['num'], f['name']))
                continue
            if gr is None:
                fail('field %d %s: enumerated values %s missing in the generated code' % (f['num'], f['name'], r['vals']))
            if gr['kind'] != r['kind']:
                fail('field %d %s: realm kind %s, schema says %s' % (f['num'], f['name'], gr['kind'], r['kind']))
            ft = sg.ft_of(f['type'])
            if gr['ft'] != ft:
                fail('field %d %s: realm value type %s, field type %s' % (f['num'], f['name'], gr['ft'], ft))

            def norm(v):
                if fixref.is_int(ft): return int(v)
                if fixref.is_char(ft): return ord(v) if isinstance(v, str) else v
                if fixref.is_float(ft): return round(float(v), 6)
                return v
            want = sorted((norm(v), dsc) for v, dsc in zip(r['vals'], r['descs']))
            gv = []
            for v in gr['vals']:
                if fixref.is_float(ft): gv.append(round(float.fromhex(v), 6))
                elif fixref.is_int(ft) or fixref.is_char(ft): gv.append(v)
                else: gv.append(bytes.fromhex(v).decode('latin-1'))
            got = sorted(zip(gv, gr['descs']))
            if got != want:
                fail('field %d %s: enumerated values/descriptions differ\n generated: %s\n schema   : %s' % (f['num'], f['name'], got, want))
        # messages
        want_types = {m['msgtype']: m for m in model['msgs']}
        got_types = {k: v for k, v in d['msgs'].items() if k not in ('header', 'trailer')}
        if set(want_types) != set(got_types):
            fail('message types differ: generated %s, schema %s' % (sorted(got_types), sorted(want_types)))
        for mt, m in want_types.items():
            g = got_types[mt]
            if g['name'] != m['name']:
                fail('message %s is called %r, schema %r' % (mt, g['name'], m['name']))
            if bool(g.get('admin')) != (m['cat'] == 'admin'):
                fail('message %s (%s): admin flag %s, schema msgcat=%s' % (mt, m['name'], g.get('admin'), m['cat']))
            self.compare_traits(sg.expand(model, m['els']), g['traits'], 'message %s (%s)' % (m['name'], mt), fail)
        hdr = [{'tag': ftab[n][0], 'ft': sg.ft_of(ftab[n][1]), 'man': r, 'man_either': False, 'grp': False, 'sub': None} for n, r in sg.HEADER]
        self.compare_traits(hdr, d['msgs']['header']['traits'], 'header', fail)
        trl = [{'tag': ftab[n][0], 'ft': sg.ft_of(ftab[n][1]), 'man': r, 'man_either': False, 'grp': False, 'sub': None} for n, r in sg.TRAILER]
        self.compare_traits(trl, d['msgs']['trailer']['traits'], 'trailer', fail)

    def compare_traits(self, want, got, where, fail):
        got = sorted(got, key=lambda t: t['pos'])
        if [t['tag'] for t in got] != [w['tag'] for w in want]:
            fail('%s: member fields / order differ\n generated (by position): %s\n schema                 : %s' % (where, [t['tag'] for t in got], [w['tag'] for w in want]))
        if len({t['pos'] for t in got}) != len(got):
            fail('%s: two fields share a position: %s' % (where, [(t['tag'], t['pos']) for t in got]))
        for w, g in zip(want, got):
            if g['ft'] != w['ft']:
                fail('%s: field %d has type %s in the generated traits, schema type %s' % (where, w['tag'], g['ft'], w['ft']))
            # BeginString, BodyLength, MsgType and CheckSum are produced by the framework itself ('automatic' traits): their mandatory flag is not the schema's business
            if bool(g['man']) != w['man'] and not w['man_either'] and w['tag'] not in (8, 9, 35, 10):
                fail('%s: field %d mandatory=%s in the generated traits, the schema makes it %s' % (where, w['tag'], g['man'], 'mandatory' if w['man'] else 'optional'))
            if bool(g['grp']) != w['grp']:
                fail('%s: field %d group flag %s, schema %s' % (where, w['tag'], g['grp'], w['grp']))
            if w['grp']:
                if not g.get('sub'):
                    fail('%s: group %d has no element definition in the generated code' % (where, w['tag']))
                self.compare_traits(w['sub'], g['sub'], '%s / group %d' % (where, w['tag']), fail)

    def round_trips(self, model, so, d, r, ex, fail):
        sch = fixref.Schema(so, d)
        import random
        rnd = random.Random(r)            # r is drawn by Hypothesis: the messages are a pure function of the case
        types = sch.types()
        msgs = [fixref.random_spec(sch, types[i % len(types)], rnd) for i in range(max(MSGS_PER_SCHEMA, len(types)))]
        n = 0
        for spec in msgs:
            ans = ex.call('build %s enc,dec,reenc %s' % (so, fixref.spec_tokens(spec)))
            enc = ans.get('enc')
            ref = fixref.ref_encode(sch, spec)
            if not isinstance(enc, str):
                fail('encoding a message of type %s failed: %r' % (spec['type'], enc))
            wire = bytes.fromhex(enc).decode('latin-1')
            if wire != ref:
                fail('message of type %s: encoded bytes differ from the schema-order reference encoding\n got: %s\n ref: %s' % (spec['type'], wire.replace('\x01', '|'), ref.replace('\x01', '|')))
            dec = ans.get('dec')
            if not isinstance(dec, dict) or 'b' not in dec:
                fail('decoding its own encoding of a %s message failed: %r\n wire: %s' % (spec['type'], dec, wire.replace('\x01', '|')))
            toks = fixref.tokenize(sch, wire, fixref.data_tags_of(sch))
            m = fixref.cmp_dump(fixref.expected_dump(sch, spec, bodylen=int(toks[1][1]), chk=toks[-1][1]), dec)
            if m:
                fail('message of type %s does not round-trip: %s\n wire: %s' % (spec['type'], m, wire.replace('\x01', '|')))
            if ans.get('reenc') != enc:
                fail('re-encoding the decoded %s message gives different bytes' % spec['type'])
            n += 1
        f = self.features(model)
        return {'nontrivial': f['nontrivial'], 'classes': f['classes'], 'key': model,
                'sample': {'fields': len(model['fields']), 'messages': [m['name'] + ':' + m['msgtype'] for m in model['msgs']], 'components': sorted(model['comps']),
                           'round_trips': n, 'classes': f['classes']}}

    def features(self, model):
        depth = 0
        shared = {}
        comp_uses = {}

        def walk(els, dpt, msg):
            nonlocal depth
            for e in els:
                if e[0] == 'group':
                    depth = max(depth, dpt + 1)
                    shared.setdefault(e[1], set()).add(msg)
                    walk(e[3], dpt + 1, msg)
                elif e[0] == 'component':
                    comp_uses.setdefault(e[1], set()).add(e[2])
                    walk(model['comps'][e[1]], dpt, msg)
        for m in model['msgs']:
            walk(m['els'], 0, m['name'])
        cls = ['group_depth:%d' % depth]
        sh = any(len(v) >= 2 for v in shared.values())
        both = any(len(v) == 2 for v in comp_uses.values())
        if sh: cls.append('group_shared_by_messages')
        if both: cls.append('component_required_and_optional')
        if len(model['fields']) > 100: cls.append('large_schema')
        return {'nontrivial': (depth >= 2 and sh) or both or depth >= 3, 'classes': cls}


class C13(SchemaCheck):
    id = 'C13'
    examples = 48
    thorough_examples = 800
    family = 'general'
    assumptions = ['the generated family: 8-40 fields (one schema in twenty: 80-120 in the quick tier, 150-300 in the thorough tier) over every type of f8c\'s type table except the two unimplemented TZ types, unique numbers below 65536, '
                   'set realms (char/int/float/string) and range realms with identifier-like descriptions, the mandatory standard header/trailer, a MsgType realm listing every message, '
                   '2-8 messages (admin and app), components nested up to 2, repeating groups nested up to 3 and reused across messages with identical definitions, Length/data pairs',
                   'a field is used at most once in a message (any depth)',
                   'mandatory flags: a field is mandatory iff required=Y and every enclosing component of the same message or group body is required; for members of a group body that lies '
                   'inside an optional component both readings are accepted',
                   'f8c is the plain (g++) build of the working tree; the generated code is compiled with clang++ -O0 under ASan/UBSan and loaded into the executor with dlopen; '
                   '%d generated messages per schema are round-tripped against the reference codec' % MSGS_PER_SCHEMA]
    rule = ('Hypothesis draws a schema model; the model is rendered to XML, compiled by f8c, the generated C++ is compiled and loaded. Oracle: f8c succeeds and its output compiles; the '
            'metadata read back from the generated tables equals the model (field number/name/type, realm kind/values/descriptions, message type/name/admin flag, per message and per '
            'group: member fields in schema order, mandatory flags after component expansion, group membership); generated messages of the schema encode to the reference bytes, decode to '
            'the generated values and re-encode identically. Non-trivial: a group nested >= 2 that is shared by two messages, a component used both required and optional, nesting 3, or a count field with several definitions.')


    def strategy(self):
        # one case in four comes from the family in which one count field carries several definitions (differing in members, nested groups, mandatory flags or order):
        # membership, order and mandatory flags of every message's own definition are C13's claim as well
        general = SchemaCheck.strategy(self)
        variants = st.tuples(sg.st_schema_c14(), st.integers(0, 2 ** 32 - 1), st.booleans()).map(lambda t: {'model': t[0], 'r': t[1], 'all_fields': t[2]})
        return st.integers(0, 3).flatmap(lambda i: variants if i == 0 else general)

    def features(self, model):
        if model.get('family') == 'c14':
            return {'nontrivial': True, 'classes': ['variant_family', 'mode:' + model.get('mode', '?')]}
        return SchemaCheck.features(self, model)


CHECKS = {'C13': C13}


class C14(SchemaCheck):
    id = 'C14'
    examples = 120
    thorough_examples = 1500
    family = 'c14'
    assumptions = ['schemas in which one repeating-group count field is used by two or three messages with different definitions: different member fields (disjoint, or one extra member), '
                   'a nested group against none, and - in about half of the schemas - two definitions engineered to collide under the compiler\'s structural hash: rothash is linear '
                   'over GF(2), so for member lists [..a, z] and [..a^d, z\'] the generator solves z\' = z ^ L(hash-prefix difference); the equality of the two hashes is recomputed in '
                   'Python and asserted, so the colliding class cannot silently become empty. A third message may share one of the two definitions',
                   'further families: identical outer groups whose nested group differs (colliding members, a mandatory flag, member order); definitions over the same member '
                   'fields that differ only in a mandatory flag or in member order - two of them, or three to four pairwise different ones; a colliding pair plus one to three '
                   'definitions constructed to hash 1..3 above the shared hash (the slots the collision probe steps over); a further message may reuse any of the definitions',
                   'oracle and pipeline as C13: the metadata of every message must be that message\'s own definition, and messages of each definition must round-trip']
    rule = ('Hypothesis draws a C14-family schema (see assumptions), which goes through f8c, the C++ compiler and dlopen like a C13 schema. Oracle: for every message the group '
            'element definition read back from the generated tables equals its own definition in the schema (member fields, order, mandatory flags, nested groups), and generated '
            'messages of every message type encode to the reference bytes and decode back. Non-trivial: the two definitions collide under group_hash.')

    def strategy(self):
        return st.tuples(sg.st_schema_c14(), st.integers(0, 2 ** 32 - 1), st.booleans()).map(lambda t: {'model': t[0], 'r': t[1], 'all_fields': t[2]})

    def features(self, model):
        return {'nontrivial': bool(model.get('collide')), 'classes': ['mode:' + model.get('mode', '?'), 'messages:%d' % len(model['msgs'])] + (['hash_collision'] if model.get('collide') else [])}


CHECKS['C14'] = C14
