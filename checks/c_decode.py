"""C04 strict decoding, C05 permissive pass-through, C06 length-prefixed data: reference-encoded messages (plus deviations) -> Message::factory."""
import random
import pbt, fixref
from pbt import Violation, Executor
from hypothesis import strategies as st
from c_codec_rt import CodecBase, SCHEMAS

SOH = '\x01'


def show(s):
    return s.replace(SOH, '|')


def flat(schema, spec):
    """flatten a spec to entries {sec, depth, tag, text, traits(of enclosing section/element), first(of element), item}"""
    out = []

    def walk(items, traits, sec, depth):
        for n, it in enumerate(fixref.ordered(items, traits)):
            out.append({'sec': sec, 'depth': depth, 'tag': it['t'], 'text': fixref.ref_text(it), 'traits': traits,
                        'elem_start': depth > 0 and n == 0, 'grp': bool(traits[it['t']].grp), 'man': traits[it['t']].man, 'item': it})
            if it.get('g'):
                for el in it['g']:
                    walk(el, traits[it['t']].sub, sec, depth + 1)
    walk(spec['h'], schema.header, 'h', 0)
    walk(spec['b'], schema.traits(spec['type']), 'b', 0)
    walk(spec['t'], schema.trailer, 't', 0)
    return out


def frame(schema, mtype, entries, chk_delta=0):
    """chk_delta 1..255: a wrong value 000..255; 256/512/768: the right value plus a multiple of 256 (three digits, numerically wrong, congruent modulo 256)"""
    body = '35=%s\x01' % mtype + ''.join('%s=%s\x01' % (e['tag'], e['text']) for e in entries)
    s = '8=%s\x019=%d\x01' % (schema.begin, len(body)) + body
    if chk_delta >= 256:
        v = fixref.checksum(s) + chk_delta
        return s + '10=%03d\x01' % (v if v <= 999 else fixref.checksum(s) + 256)
    return s + '10=%03d\x01' % ((fixref.checksum(s) + chk_delta) % 256)


def unknown_tags(schema):
    return [t for t in list(range(1, 100)) + list(range(5000, 5040)) + [20000, 65535, 40000] if t not in schema.fields and t not in (8, 9, 10, 35)]


class C04(CodecBase):
    id = 'C04'
    examples = 6000
    unpaired_length = True
    rule = ('A conforming message (generated as for C01, reference-encoded) and optionally one deviation: wrong checksum; unknown tag (not in the '
            'schema) at any token boundary of header/body/trailer/group element; tag >= 65536 aliasing a legal tag modulo 2^16; header-only field in '
            'the body / body-only field in the header; duplicate of a non-group field; mandatory field removed (section or group element); group '
            'element not starting with the group\'s first field. Conforming messages also carry numeric text variants (leading zeros) for ints. '
            'Oracle: conforming => accepted and dump == generated fields token for token; deviation => an exception is thrown. '
            'Non-trivial: deviation placed after the last mandatory field of its section, or a tag >= 65536, or inside a group.')

    def __init__(self, tier):
        super().__init__(tier)
        if tier == 'thorough':
            self.examples = 150000
            self.workers = 16

    def strategy(self):
        base = super().strategy()
        general = st.tuples(base, st.sampled_from(['none', 'none', 'variant', 'chk', 'unknown', 'unknown', 'alias', 'misplaced', 'misplaced', 'dup',
                                                   'missing', 'grpstart', 'dup_data']), st.integers(0, 2 ** 32 - 1))
        # messages that certainly carry a Length/data pair, for the duplicate-data deviation
        def paired(name):
            sch = self.schemas[name]
            ptypes = [t for t in sch.types() if sch.traits(t).pairs()]
            return fixref.st_message(sch, mtypes=ptypes, pair_bias=True, unpaired_length=self.unpaired_length).map(lambda spec: {'schema': name, 'spec': spec})
        dupdata = st.tuples(st.sampled_from(SCHEMAS).flatmap(paired), st.just('dup_data'), st.integers(0, 2 ** 32 - 1))

        # group deviations need messages with populated groups of several elements: message types that have groups, dense sections
        def grouped(name):
            sch = self.schemas[name]
            gtypes = [t for t in sch.types() if any(tr.grp for tr in sch.traits(t).list)]
            return fixref.st_message(sch, mtypes=gtypes, dense=True, max_elems=3, unpaired_length=self.unpaired_length).map(lambda spec: {'schema': name, 'spec': spec})
        groups = st.tuples(st.sampled_from(SCHEMAS).flatmap(grouped), st.sampled_from(['grpstart', 'grpstart', 'missing', 'dup', 'none']), st.integers(0, 2 ** 32 - 1))
        # (one_of drops repeated strategy objects, so the weights are drawn explicitly: 6 : 2 : 1)
        return st.integers(0, 8).flatmap(lambda i: general if i < 6 else groups if i < 8 else dupdata).map(lambda t: dict(t[0], dev=t[1], r=t[2]))

    def run(self, case, ex):
        sch = self.schemas[case['schema']]
        spec = case['spec']
        rnd = random.Random(case['r'])
        ents = flat(sch, spec)
        mtype = spec['type']
        body_tr = sch.traits(mtype)
        dev = case['dev']
        info_cls = ['dev:' + dev, 'schema:' + case['schema']]
        nontrivial = False
        conforming = True
        desc = ''
        chk_delta = 0

        def last_mand_idx(sec):
            idx = [i for i, e in enumerate(ents) if e['sec'] == sec and e['depth'] == 0 and e['man']]
            return idx[-1] if idx else -1

        def sec_range(sec):
            idx = [i for i, e in enumerate(ents) if e['sec'] == sec]
            return (idx[0], idx[-1] + 1) if idx else None

        if dev == 'variant':
            cands = [e for e in ents if e['item']['k'] == 'i' and not e['grp'] and e['traits'][e['tag']].ft != fixref.FT_Length]
            if not cands:
                dev = 'none'
            else:
                e = rnd.choice(cands)
                v = e['item']['v']
                e['text'] = ('-' if v < 0 else '') + '0' * rnd.randint(1, 3) + str(abs(v))
                desc = 'leading zeros on tag %d: %r' % (e['tag'], e['text'])
                nontrivial = True
        if dev == 'chk':
            chk_delta = rnd.choice([rnd.randint(1, 255), rnd.randint(1, 255), 256, 512, 768])
            conforming = False
            desc = 'checksum off by %d' % chk_delta
        elif dev == 'unknown':
            tag = rnd.choice(unknown_tags(sch))
            # any token boundary after MsgType, up to just before CheckSum
            pos = rnd.choice([len(ents), len(ents), rnd.randint(0, len(ents)), rnd.randint(0, len(ents))])
            rng_b = sec_range('b')
            if rnd.random() < 0.3 and rng_b:
                pos = rng_b[1]                         # right after the last body field
            ents.insert(pos, {'sec': '?', 'depth': 0, 'tag': tag, 'text': rnd.choice(['x', 'blah', '1', 'A=B']), 'man': False})
            conforming = False
            desc = 'unknown tag %d at token index %d of %d' % (tag, pos, len(ents) - 1)
            before = ents[:pos]
            lm = max([i for i, e in enumerate(ents) if e.get('man') and e['depth'] == 0] or [-1])
            inside_group = pos < len(ents) - 1 and ents[pos + 1].get('depth', 0) > 0 and not ents[pos + 1].get('elem_start') or (
                pos > 0 and pos < len(ents) - 1 and ents[pos + 1].get('depth', 0) > 0)
            nontrivial = pos > lm or inside_group
            if inside_group: info_cls.append('in_group')
            if pos > lm: info_cls.append('after_last_mandatory')
        elif dev == 'alias':
            # a legal, absent, non-group tag of the body (or header) written as tag + k*65536, appended at the end of its section
            sec = rnd.choice(['b', 'h'])
            traits = body_tr if sec == 'b' else sch.header
            present = {e['tag'] for e in ents if e['sec'] == sec and e['depth'] == 0}
            cands = [t for t in traits.list if t.tag not in present and not t.grp and not t.automatic and
                     t.ft in (fixref.FT_string, fixref.FT_int, fixref.FT_char, fixref.FT_Qty, fixref.FT_Price)]
            if not cands:
                dev = 'none'
            else:
                t = rnd.choice(cands)
                tag = t.tag + rnd.choice([65536, 131072, 196608, 2 ** 32, 2 ** 32 + 65536, 10 ** 10 * 65536])
                rng = sec_range(sec)
                pos = rng[1] if rng else (0 if sec == 'h' else len([e for e in ents if e['sec'] == 'h']))
                ents.insert(pos, {'sec': '?', 'depth': 0, 'tag': tag, 'text': '1', 'man': False})
                conforming = False
                nontrivial = True
                desc = 'tag %d (aliases legal tag %d modulo 2^16) at the end of section %s' % (tag, t.tag, sec)
        elif dev == 'misplaced':
            hdr_only = [t for t in sch.header.list if t.tag not in body_tr and t.tag not in sch.trailer and not t.automatic and not t.grp
                        and t.ft in (fixref.FT_string, fixref.FT_Boolean, fixref.FT_UTCTimestamp)]
            body_only = [t for t in body_tr.list if t.tag not in sch.header and t.tag not in sch.trailer and not t.grp
                         and t.ft in (fixref.FT_string, fixref.FT_int, fixref.FT_char, fixref.FT_Qty, fixref.FT_Price)]
            rb, rh = sec_range('b'), sec_range('h')
            present = {e['tag'] for e in ents if e['depth'] == 0}
            variant = rnd.choice(['h_in_b', 'b_in_h'])
            done = False
            if variant == 'h_in_b' and rb:
                cands = [t for t in hdr_only if t.tag not in present]
                top = [i for i in range(rb[0] + 1, rb[1] + 1) if i == rb[1] or ents[i]['depth'] == 0]   # after >= 1 body token, top level only
                if cands and top:
                    t = rnd.choice(cands)
                    pos = rnd.choice(top + [rb[1]])
                    text = {fixref.FT_string: 'X', fixref.FT_Boolean: 'Y', fixref.FT_UTCTimestamp: '20200101-00:00:00.000'}[t.ft]
                    ents.insert(pos, {'sec': '?', 'depth': 0, 'tag': t.tag, 'text': text, 'man': False})
                    desc = 'header field %d inside the body at token index %d (body is %d..%d)' % (t.tag, pos, rb[0], rb[1])
                    nontrivial = pos > last_mand_idx('b')
                    done = True
            if not done and rh and len([1 for e in ents if e['sec'] == 'h']) >= 2:
                cands = [t for t in body_only if t.tag not in present]
                if cands:
                    t = rnd.choice(cands)
                    pos = rnd.randint(rh[0], rh[1] - 1)   # at least one header token follows it
                    # keep top-level: do not land inside a header group
                    while pos > rh[0] and ents[pos]['depth'] > 0:
                        pos -= 1
                    ents.insert(pos, {'sec': '?', 'depth': 0, 'tag': t.tag, 'text': '1', 'man': False})
                    desc = 'body field %d inside the header at token index %d (header is %d..%d)' % (t.tag, pos, rh[0], rh[1])
                    nontrivial = pos > last_mand_idx('h')
                    done = True
            if done:
                conforming = False
            else:
                dev = 'none'
        elif dev == 'dup':
            cands = [i for i, e in enumerate(ents) if e['depth'] == 0 and not e['grp'] and
                     e['traits'][e['tag']].ft not in (fixref.FT_Length, fixref.FT_data)]
            if not cands:
                dev = 'none'
            else:
                i = rnd.choice(cands)
                e = ents[i]
                rng = sec_range(e['sec'])
                tops = [j for j in range(i + 1, rng[1] + 1) if j == rng[1] or ents[j]['depth'] == 0]
                pos = rnd.choice(tops)
                ents.insert(pos, dict(e))
                conforming = False
                desc = 'duplicate of tag %d (section %s) at token index %d' % (e['tag'], e['sec'], pos)
                nontrivial = pos > last_mand_idx(e['sec'])
        elif dev == 'dup_data':
            # a length-prefixed data field that occurs twice in its section: a bare copy in front of the pair, a bare copy behind it, or the whole pair twice
            pairs_at = [i for i in range(len(ents) - 1) if ents[i]['depth'] == 0 and ents[i]['traits'][ents[i]['tag']].ft == fixref.FT_Length
                        and ents[i + 1]['depth'] == 0 and ents[i + 1]['traits'][ents[i + 1]['tag']].ft in (fixref.FT_data, fixref.FT_XMLData)
                        and ents[i]['sec'] == ents[i + 1]['sec'] and '\x01' not in ents[i + 1]['text']]
            if not pairs_at:
                dev = 'none'
            else:
                i = rnd.choice(pairs_at)
                ln, dt = dict(ents[i]), dict(ents[i + 1])
                rng = sec_range(ln['sec'])
                how = rnd.choice(['bare_before', 'bare_after', 'pair_twice'])
                if how == 'bare_before':
                    tops = [j for j in range(rng[0], i + 1) if ents[j]['depth'] == 0]
                    ents.insert(rnd.choice(tops), dt)
                elif how == 'bare_after':
                    ents.insert(i + 2, dt)
                else:
                    ents[i + 2:i + 2] = [ln, dt]
                conforming = False
                nontrivial = True
                info_cls.append('dup_data:' + how)
                desc = 'data field %d occurs twice in section %s (%s)' % (dt['tag'], dt['sec'], how)
        elif dev == 'missing':
            cands = [i for i, e in enumerate(ents) if e['man'] and not e['grp'] and not e['elem_start'] and
                     e['traits'][e['tag']].ft not in (fixref.FT_Length, fixref.FT_data)]
            if not cands:
                dev = 'none'
            else:
                i = rnd.choice(cands)
                e = ents.pop(i)
                conforming = False
                desc = 'mandatory tag %d removed (section %s depth %d)' % (e['tag'], e['sec'], e['depth'])
                nontrivial = e['depth'] > 0
                if e['depth'] > 0: info_cls.append('in_group')
        elif dev == 'grpstart':
            # first element of a group loses its first field; the element must still have another field of its own depth
            cands = []
            for i, e in enumerate(ents):
                if e['elem_start'] and i > 0 and ents[i - 1]['grp'] and ents[i - 1]['depth'] == e['depth'] - 1:
                    if i + 1 < len(ents) and ents[i + 1]['depth'] == e['depth'] and not ents[i + 1]['elem_start'] and not e['grp']:
                        cands.append(i)
            # second and later elements: the field now leading the element must also occur in the previous element, so that it cannot be read as a
            # continuation of that element (which would be a count mismatch, a deviation the statement does not list)
            later = []
            for i, e in enumerate(ents):
                d = e['depth']
                if not (e['elem_start'] and d > 0 and not e['grp'] and i + 1 < len(ents) and ents[i + 1]['depth'] == d and not ents[i + 1]['elem_start'] and not ents[i + 1]['grp']):
                    continue
                j, prev_tags, found = i - 1, set(), False
                while j >= 0 and ents[j]['depth'] >= d:
                    if ents[j]['depth'] == d:
                        prev_tags.add(ents[j]['tag'])
                        if ents[j]['elem_start']:
                            found = True
                            break
                    j -= 1
                if found and ents[i + 1]['tag'] in prev_tags:
                    later.append(i)
            if later and (not cands or rnd.random() < 0.6):
                i = rnd.choice(later)
                if rnd.random() < 0.5:
                    e = ents.pop(i)
                    how = 'lost its first field'
                else:
                    ents[i], ents[i + 1] = ents[i + 1], ents[i]
                    e = ents[i + 1]
                    how = 'has its first field in second place'
                conforming = False
                nontrivial = True
                info_cls += ['in_group', 'later_element']
                desc = 'a second or later group element %s %d: it starts with %d' % (how, e['tag'], ents[i]['tag'])
            elif not cands:
                dev = 'none'
            else:
                i = rnd.choice(cands)
                e = ents.pop(i)
                conforming = False
                nontrivial = True
                info_cls.append('in_group')
                desc = 'first element of group %d starts with %d instead of its first field %d' % (ents[i - 1]['tag'], ents[i]['tag'], e['tag'])
        if dev == 'none':
            info_cls[0] = 'dev:none'

        wire = frame(sch, mtype, ents, chk_delta)
        if len(wire) > 7000:
            return {'excluded': ['longer_than_7000_bytes']}
        ans = ex.call('decode %s 0 0 %s -' % (case['schema'], fixref.hexs(wire)))
        if conforming:
            if not ans.get('ok'):
                raise Violation('C04: strict decoding rejected a schema-conforming message (%s): %r\n wire: %s' % (desc or 'no deviation', ans.get('x'), show(wire)))
            toks = fixref.tokenize(sch, wire, fixref.data_tags_of(sch))
            exp = fixref.expected_dump(sch, spec, bodylen=int(toks[1][1]), chk=toks[-1][1])
            m = fixref.cmp_dump(exp, ans['dump'])
            if m:
                raise Violation('C04: accepted message does not retain the input fields (%s): %s\n wire: %s' % (desc or 'no deviation', m, show(wire)))
        else:
            if ans.get('ok'):
                kept = [g['t'] for s in 'hbt' for g in ans['dump'][s]]
                raise Violation('C04: strict decoding accepted a non-conforming message: %s\n wire: %s\n decoded tags: %s' % (desc, show(wire), kept))
        return {'nontrivial': nontrivial, 'classes': info_cls, 'key': [case['schema'], wire],
                'sample': {'schema': case['schema'], 'deviation': desc or 'none (conforming)', 'wire': show(wire)}}


CHECKS = {'C04': C04}


def subsequence(small, big):
    it = iter(big)
    return all(any(x == y for y in it) for x in small)


class C05(CodecBase):
    id = 'C05'
    examples = 5000
    rule = ('A conforming message (as C01, reference-encoded) with 1-24 unknown tag=value tokens (tags not in the schema, printable values of 1-300 bytes; scattered or as one consecutive run) inserted '
            'at generated token boundaries of header, body, trailer and group elements; decoded with permissive mode on. Oracle: accepted; every '
            'known field decodes to the generated value (== strict decode of the message without the unknown tokens); re-encoding is well-framed '
            '(8/9/35 first, BodyLength, CheckSum), its token multiset is exactly known tokens + unknown tokens (each unknown token byte-identical, '
            'once), known tokens keep their relative order. Non-trivial: an unknown token not adjacent to a section boundary, or inside a group.')

    def __init__(self, tier):
        super().__init__(tier)
        if tier == 'thorough':
            self.examples = 120000
            self.workers = 16

    def strategy(self):
        base = super().strategy()
        # 1-4 scattered tokens mostly; also up to 24 tokens, scattered or as one consecutive run (a long run of foreign fields in front of known ones)
        n = st.one_of(st.integers(1, 4), st.integers(1, 4), st.integers(5, 24))
        return st.tuples(base, n, st.integers(0, 2 ** 32 - 1), st.sampled_from([False, False, True])).map(lambda t: dict(t[0], n=t[1], r=t[2], run=t[3]))

    # classes excluded by construction (open known findings), see known_findings.json
    exclude_in_group = False

    def run(self, case, ex):
        sch = self.schemas[case['schema']]
        spec = case['spec']
        rnd = random.Random(case['r'])
        ents = flat(sch, spec)
        known = [(e['tag'], e['text']) for e in ents]
        utags = unknown_tags(sch)
        unk = []
        cls = ['schema:' + case['schema']]
        nontrivial = False
        excluded = []
        run_pos = None
        for _ in range(case['n']):
            pos = rnd.randint(0, len(ents))
            if case.get('run'):
                # consecutive run: every token goes in front of the same known field
                pos = run_pos = (pos if run_pos is None else run_pos)
            nxt = ents[pos] if pos < len(ents) else None
            prv = ents[pos - 1] if pos > 0 else None
            in_group = nxt is not None and nxt.get('depth', 0) > 0 and not (nxt.get('elem_start') and nxt['depth'] == 1 and False)
            in_group = bool(nxt is not None and nxt.get('depth', 0) > 0)
            if in_group and self.exclude_in_group:
                excluded.append('unknown_inside_group')
                continue
            tok = {'sec': '?', 'depth': nxt.get('depth', 0) if nxt else 0, 'tag': rnd.choice(utags),
                   'text': rnd.choice(['x', 'blah', '1', 'A=B', 'unknown value', '10=000', 'v' * rnd.randint(1, 300)]), 'unk': True}
            boundary = prv is None or nxt is None or prv.get('sec') != nxt.get('sec') or prv.get('unk') or nxt.get('unk')
            if in_group: cls.append('in_group')
            if not boundary: cls.append('mid_section')
            if case['n'] >= 9: cls.append('nine_or_more_unknown' + ('_consecutive' if case.get('run') else ''))
            nontrivial = nontrivial or in_group or not boundary
            ents.insert(pos, tok)
            unk.append((tok['tag'], tok['text']))
        if not unk:
            return {'excluded': excluded}
        wire = frame(sch, spec['type'], ents)
        if len(wire) > 7000:
            return {'excluded': ['longer_than_7000_bytes']}
        ans = ex.call('decode %s 0 1 %s reenc' % (case['schema'], fixref.hexs(wire)))
        if not ans.get('ok'):
            raise Violation('C05: permissive decoding rejected a message whose only deviation is unknown tags %r: %r\n wire: %s' % (unk, ans.get('x'), show(wire)))
        toks = fixref.tokenize(sch, wire, fixref.data_tags_of(sch))
        exp = fixref.expected_dump(sch, spec, bodylen=int(toks[1][1]), chk=toks[-1][1])
        m = fixref.cmp_dump(exp, ans['dump'])
        if m:
            raise Violation('C05: a known field is lost or changed in permissive mode (unknown tokens %r): %s\n wire: %s' % (unk, m, show(wire)))
        re = ans.get('reenc')
        if not isinstance(re, str):
            raise Violation('C05: re-encoding the permissively decoded message failed: %r\n wire: %s' % (re, show(wire)))
        rw = bytes.fromhex(re).decode('latin-1')
        try:
            rt = fixref.check_framing(sch, rw)
        except fixref.Malformed as e:
            raise Violation('C05: re-encoded message is not well-framed: %s\n in : %s\n out: %s' % (e, show(wire), show(rw)))
        body = rt[3:-1]
        if sorted(body) != sorted(known + unk):
            raise Violation('C05: re-encoded tokens are not exactly known + unknown tokens\n in : %s\n out: %s\n missing: %r\n extra: %r' % (
                show(wire), show(rw), [t for t in known + unk if t not in body], [t for t in body if t not in known + unk]))
        if not subsequence(known, body):
            raise Violation('C05: known fields changed order on re-encoding\n in : %s\n out: %s' % (show(wire), show(rw)))
        return {'nontrivial': nontrivial, 'classes': cls, 'excluded': excluded, 'key': [case['schema'], wire],
                'sample': {'schema': case['schema'], 'unknown': unk, 'wire': show(wire), 'reencoded': show(rw)}}


CHECKS['C05'] = C05


def st_data_bytes(allow_nul):
    lo = 0 if allow_nul else 1
    frags = ['\x01', '=', '\x0110=000\x01', '\x0158=x\x01', '10=', '9=5\x01', '\x01\x01', '==', '0', '1', '35=A', 'abc', '\xff\xfe', ' ', '|']
    if allow_nul:
        frags.append('\x00')

    def mk(idx, raw, rep):
        s = ''.join(frags[i % len(frags)] for i in idx) + ''.join(chr(lo + b % (256 - lo)) for b in raw)
        if rep and s:
            s = (s * (rep // len(s) + 1))[:rep]
        return s
    return st.builds(mk, st.lists(st.integers(0, 63), max_size=5), st.binary(max_size=6),
                     st.one_of(st.just(0), st.just(0), st.just(0), st.just(0), st.just(0), st.sampled_from([255, 256, 257, 1023, 2046, 2047]), st.integers(0, 2047)))


class C06(CodecBase):
    id = 'C06'
    examples = 5000
    exclude_nul = False
    rule = ('Messages as for C01 in which every Length/data pair the schema defines for the message (header SecureData/XmlData, body RawData/'
            'Encoded*, trailer Signature, pairs inside repeating groups) may be present, with data content drawn from all byte values '
            '(SOH, "=", checksum look-alikes and digits over-represented), length 0..2047. The reference encoding is decoded (factory, '
            'strict) and, when the content has no NUL, the message is also built and encoded by the library. Oracle: encoded bytes == reference; '
            'decoded data bytes and Length == generated; all other fields decode to their values; re-encode byte-identical. '
            'Non-trivial: a data content containing SOH or "=" whose pair is followed by >= 1 field; distinct by (schema, wire).')

    def __init__(self, tier):
        super().__init__(tier)
        if tier == 'thorough':
            self.examples = 150000
            self.workers = 16

    def strategy(self):
        def per_schema(name):
            sch = self.schemas[name]
            types = [t for t in sch.types()]
            return fixref.st_message(sch, data_strategy=st_data_bytes(not self.exclude_nul), pair_bias=True).map(lambda spec: {'schema': name, 'spec': spec})
        return st.sampled_from(SCHEMAS).flatmap(per_schema)

    def run(self, case, ex):
        sch = self.schemas[case['schema']]
        spec = case['spec']
        ents = flat(sch, spec)
        wire = fixref.ref_encode(sch, spec)
        if len(wire) > 7000:
            return {'excluded': ['longer_than_7000_bytes']}
        cls = ['schema:' + case['schema']]
        nontrivial = False
        has_nul = False
        npairs = 0
        for i, e in enumerate(ents):
            if e['traits'][e['tag']].ft == fixref.FT_data:
                npairs += 1
                c = e['text']
                follow = i + 1 < len(ents)
                where = {'h': 'header', 'b': 'body', 't': 'trailer'}[e['sec']] if e['depth'] == 0 else 'group'
                cls.append('pair_in_' + where)
                if '\x00' in c: has_nul = True; cls.append('nul')
                if '\x01' in c: cls.append('soh')
                if ('\x01' in c or '=' in c) and follow:
                    nontrivial = True
        if not npairs:
            return {'classes': ['no_pair']}
        ans = ex.call('decode %s 0 0 %s reenc' % (case['schema'], fixref.hexs(wire)))
        if not ans.get('ok'):
            raise Violation('C06: decoding failed for a message with length-prefixed data: %r\n wire: %r' % (ans.get('x'), show(wire)))
        toks = fixref.tokenize(sch, wire, fixref.data_tags_of(sch))
        exp = fixref.expected_dump(sch, spec, bodylen=int(toks[1][1]), chk=toks[-1][1])
        m = fixref.cmp_dump(exp, ans['dump'])
        if m:
            raise Violation('C06: decoded message differs from the generated one: %s\n wire: %r' % (m, show(wire)))
        if ans.get('reenc') != fixref.hexs(wire):
            re = ans.get('reenc')
            raise Violation('C06: re-encoding is not byte-identical\n in : %r\n out: %r' % (
                show(wire), show(bytes.fromhex(re).decode('latin-1')) if isinstance(re, str) else re))
        if not has_nul:
            b = ex.call('build %s enc %s' % (case['schema'], fixref.spec_tokens(spec)))
            if b.get('enc') != fixref.hexs(wire):
                e = b.get('enc')
                raise Violation('C06: library encoding differs from the reference\n ref: %r\n got: %r' % (
                    show(wire), show(bytes.fromhex(e).decode('latin-1')) if isinstance(e, str) else e))
        return {'nontrivial': nontrivial, 'classes': cls, 'key': [case['schema'], wire],
                'sample': {'schema': case['schema'], 'type': spec['type'], 'wire': repr(show(wire))}}


CHECKS['C06'] = C06
