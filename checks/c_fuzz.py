"""Checks whose deciding step is a libFuzzer campaign with the oracle inside the target (C07; fuzz halves of C03, C15, C32)."""
import os, sys, time, json, argparse, glob
import pbt, fuzzrun


class FuzzCheck:
    """subclass sets: id, target, max_len, runs (quick, thorough), jobs (quick, thorough), rule, assumptions, seeds(), dictionary()"""
    level = 'exploration'
    timeout = 10

    @classmethod
    def seeds(cls): return []

    @classmethod
    def dictionary(cls): return None

    @classmethod
    def campaign(cls, tier, seed):
        t = 0 if tier == 'quick' else 1
        return fuzzrun.campaign(cls.target, seed, cls.jobs[t], cls.runs[t], cls.max_len, cls.seeds(), cls.dictionary(), cls.timeout)

    @classmethod
    def replay_dir(cls, stats):
        """regression inputs (reg-*.bin): a seconds-long tier; returns (path, report) of the first failing one"""
        n = 0
        for fn in sorted(glob.glob(os.path.join(pbt.VERIF, 'replays', cls.id, 'reg-*.bin'))):
            n += 1
            rep = fuzzrun.replay(cls.target, open(fn, 'rb').read())
            if rep is not None:
                return fn, rep
        stats['regression_replays'] = n
        return None, None

    @classmethod
    def main(cls, argv):
        ap = argparse.ArgumentParser()
        ap.add_argument('--tier', default=os.environ.get('VERIF_TIER') or 'quick')
        ap.add_argument('--replay')
        a = ap.parse_args(argv)
        tier = 'thorough' if a.tier.startswith('t') else 'quick'
        seed = int(os.environ.get('VERIF_SEED') or 0)
        t0 = time.time()
        if a.replay:
            rep = fuzzrun.replay(cls.target, open(a.replay, 'rb').read())
            if rep is None:
                print('replay: input passes')
                return 0
            print(rep)
            print('VIOLATION property=%s replay=%s' % (cls.id, a.replay))
            return 1
        for k in pbt.load_known(cls.id):
            if k.get('status') == 'open' and k['reproducer'].endswith('.bin'):
                if fuzzrun.replay(cls.target, open(os.path.join(pbt.VERIF, k['reproducer']), 'rb').read()) is not None:
                    print('KNOWN-FINDING: property=%s %s [%s]' % (cls.id, k['what'], k['id']))
        extra = {}
        rc = 0
        path, rep = cls.replay_dir(extra)
        st = {'execs': 0, 'nontrivial': 0, 'distinct_max_job': 0, 'samples': []}
        if path is None:
            st, fails = cls.campaign(tier, seed)
            if fails:
                data = min(fails, key=len)
                d = os.path.join(pbt.VERIF, 'replays', cls.id)
                os.makedirs(d, exist_ok=True)
                import hashlib
                path = os.path.join(d, 'fail-%s.bin' % hashlib.sha1(data).hexdigest()[:16])
                open(path, 'wb').write(data)
                rep = fuzzrun.replay(cls.target, data) or 'failing input (report not reproduced on the 4th run)'
        if path is not None:
            print(rep[:6000])
            print('VIOLATION property=%s replay=%s' % (cls.id, path))
            rc = 1
        stats = pbt.Stats()
        stats.evaluations = int(st['execs']) + extra.get('regression_replays', 0)
        stats.nontrivial = int(st['distinct_max_job'])
        stats.samples = [{'input_hex': s} for s in st['samples']] or [{'note': 'no sample recorded'}]
        stats.extra = {k: v for k, v in st.items() if k not in ('samples',)}
        stats.extra.update(extra)
        pbt.write_evidence(cls.id, tier, seed, cls.level, stats, cls.rule, time.time() - t0, 1 if rc else 0, cls.assumptions)
        print('%s %s: %d executions, %d non-trivial (%d distinct in the busiest job), %.1fs%s' % (
            cls.id, tier, st['execs'], st['nontrivial'], st['distinct_max_job'], time.time() - t0, '' if rc == 0 else '  ** VIOLATION **'))
        return rc


class C07(FuzzCheck):
    id = 'C07'
    target = 'fuzz_chksum'
    build = [('fuzz', 'fuzz_chksum')]
    max_len = 4096
    runs = (250000, 6000000)
    jobs = (8, 16)
    rule = ('libFuzzer (-fsanitize=fuzzer,address,undefined) drives Message::calc_chksum(const char*, sz, offset, len) and the f8String overload: '
            'FuzzedDataProvider decodes each input into buffer content (optionally repeated up to 70 000 bytes to reach the >256/>1024 byte paths), '
            'a heap block of exactly sz bytes at a generated misalignment (0-7), offset in [0, sz], len in {-1} u [0, sz-offset]. '
            'Oracle inside the target: result == sum of exactly those bytes mod 256 (for len=-1: the remainder of the buffer); ASan reports any read '
            'outside the allocation. Non-trivial: length > 256, or offset > 0 with len = -1, or a byte >= 0x80; distinct by input hash '
            '(distinct_nontrivial = the largest per-job count, a conservative lower bound of the union).')
    assumptions = ['only the 64-bit unsigned long build of calc_chksum is compiled on this platform (the #else branch is not)',
                   'libFuzzer campaigns are pinned by -seed/-runs only approximately; the saved artifact is the reproducible unit']


CHECKS = {'C07': C07}


def codec_seeds():
    """reference-encoded messages of every type of both schemas (mandatory-only and all-fields), prefixed with the selector byte"""
    import fixref
    ex = pbt.Executor()
    out = []
    try:
        for sel, name in ((0, 'UTEST'), (1, 'F44')):
            sch = fixref.load_schema(ex, name)
            for i, mt in enumerate(sch.types()):
                for full in (False, True):
                    w = fixref.ref_encode(sch, fixref.minimal_spec(sch, mt, full))
                    if len(w) < 4000:
                        out.append(bytes([sel + (4 if full and i % 2 else 0)]) + w.encode('latin-1'))
    finally:
        ex.close()
    return out


def codec_dictionary():
    toks = [b'\x01', b'=', b'8=FIX.4.2\x01', b'8=FIX.4.4\x01', b'9=', b'35=', b'10=', b'\x0110=000\x01', b'34=', b'49=', b'56=', b'52=',
            b'95=', b'96=', b'90=', b'91=', b'93=', b'89=', b'212=', b'213=', b'78=', b'79=', b'80=', b'146=', b'55=', b'555=', b'600=',
            b'604=', b'605=', b'33=', b'58=', b'354=', b'355=', b'65535=', b'65536=', b'4294967296=', b'2147483647', b'2048', b'2047', b'-1',
            b'99999999999999999999999999999999999', b'453=', b'448=', b'802=', b'523=', b'383=']
    return toks


class C03Fuzz(FuzzCheck):
    id = 'C03'
    target = 'fuzz_factory'
    max_len = 8193
    runs = (40000, 1500000)
    jobs = (8, 16)
    timeout = 10
    seeds = staticmethod(codec_seeds)
    dictionary = staticmethod(codec_dictionary)


# ------------------------------------------------------------------------------------------------
import random
import fixref
from pbt import Violation
from hypothesis import strategies as st

ENCODE_BODY_LIMIT = 8184     # BodyLength + "10=xxx|" + NUL must fit the encoder's 8192 byte area (message.cpp / session.cpp)


class C03:
    """C03 = libFuzzer campaign on Message::factory (pre_search) + structure-aware adversarial decode inputs + oversized encode inputs"""
    id = 'C03'
    level = 'exploration'
    build = [('asan', 'fx'), ('fuzz', 'fuzz_factory')]
    workers = 8
    examples = 2400
    rule = ('(a) libFuzzer on Message::factory: byte strings <= 8193 (first byte selects schema FIX42UTEST/FIX44, no_chksum and permissive flags), '
            'seeded with reference-encoded messages of every type and a tag dictionary; a decoded message is also printed and re-encoded; anything '
            'but a returned message or a std::exception (sanitizer report, trap, foreign exception, timeout) fails. (b) Hypothesis adversarial '
            'decoder inputs built from valid messages: tags of 1-4000 digits, values of 0-8000 bytes, missing "=" or SOH, group counts up to 2^31, '
            'Length fields announcing more bytes than remain, truncation at every offset, tags >= 65536, embedded NULs. (c) Hypothesis encoder '
            'inputs: messages whose string/data values reach 16 KiB or with up to 200 group elements, encoded with Message::encode. '
            'Non-trivial: (a) input passes the 8=/9=/35= preamble test; (b),(c) every case; distinct by input hash. '
            'distinct_nontrivial counts (b)+(c) cases plus the largest per-job distinct count of (a).')
    assumptions = ['Message::encode(f8String&) and Session::send_process encode into a fixed 8192 byte area: messages whose BodyLength exceeds 8184 '
                   'are an open known finding, excluded from (c) by construction and counted',
                   'libFuzzer campaigns are pinned by -seed/-runs only approximately; the saved artifact is the reproducible unit']
    runs = (40000, 1500000)
    jobs = (8, 16)

    def __init__(self, tier):
        self.tier = tier
        ex = pbt.Executor()
        self.schemas = {n: fixref.load_schema(ex, n) for n in ('UTEST', 'F44')}
        ex.close()
        if tier == 'thorough':
            self.examples = 100000
            self.workers = 16

    def pre_search(self, stats, seed):
        # saved fuzz regression inputs first
        extra = {}
        path, rep = C03Fuzz.replay_dir(extra)
        if path is not None:
            return {'case': {'fuzz_hex': open(path, 'rb').read().hex()}, 'msg': rep, 'path': path}
        st_, fails = C03Fuzz.campaign(self.tier, seed)
        stats.evaluations += st_['execs']
        stats.extra['fuzz'] = {k: v for k, v in st_.items() if k != 'samples'}
        stats.extra['fuzz_regression_inputs'] = extra.get('regression_replays', 0)
        for s in st_['samples'][:2]:
            stats.samples.append({'fuzz_input_hex': s})
        stats.nontrivial.update('fuzzjob-%d' % i for i in range(st_['distinct_max_job']))
        if fails:
            data = min(fails, key=len)
            return {'case': {'fuzz_hex': data.hex()}, 'msg': fuzzrun.replay('fuzz_factory', data) or 'fuzz failure'}
        return None

    def strategy(self):
        dec = st.fixed_dictionaries({
            'mode': st.just('dec'), 'schema': st.sampled_from(['UTEST', 'F44']), 'mt': st.integers(0, 200), 'full': st.booleans(),
            'mut': st.sampled_from(['longtag', 'longval', 'noeq', 'nosoh', 'hugecount', 'lenover', 'trunc', 'bigtag', 'nul', 'longtagfirst', 'badlen9', 'datafit', 'datafit']),
            'n': st.integers(0, 8000), 'r': st.integers(0, 2 ** 32 - 1), 'perm': st.booleans(), 'nochk': st.booleans()})
        enc = st.fixed_dictionaries({
            'mode': st.just('enc'), 'schema': st.sampled_from(['UTEST', 'F44']), 'mt': st.integers(0, 200),
            'sizes': st.lists(st.one_of(st.integers(1, 400), st.integers(1, 16384), st.sampled_from([2047, 2048, 4096, 8192, 16384])), min_size=1, max_size=4),
            'elems': st.one_of(st.just(1), st.integers(1, 200)), 'target': st.one_of(st.just(0), st.integers(-40, 60)), 'r': st.integers(0, 2 ** 32 - 1)})
        return st.one_of(dec, enc)

    # -- (b)
    def run_dec(self, case, ex):
        sch = self.schemas[case['schema']]
        types = sch.types()
        mt = types[case['mt'] % len(types)]
        if case['mut'] == 'datafit':
            # a length-prefixed data field whose declared length is honest and sits at the field-size limit (2046..2050 bytes), at section level or inside a group element
            gp = [t for t in types if any(tr.grp and tr.sub is not None and tr.sub.pairs() for tr in sch.traits(t).list)]
            ap = [t for t in types if sch.traits(t).pairs()]
            pool = gp if (case['r'] & 1 and gp) else (ap or gp)
            if pool:
                mt = pool[case['mt'] % len(pool)]
        wire = fixref.ref_encode(sch, fixref.minimal_spec(sch, mt, case['full']))
        if len(wire) > 6000:
            wire = fixref.ref_encode(sch, fixref.minimal_spec(sch, mt, False))
        rnd = random.Random(case['r'])
        toks = wire[:-7].split('\x01')[:-1]           # tokens without the checksum
        mut, n = case['mut'], case['n']
        pos = rnd.randint(3, len(toks))

        def join(tk):
            body = '\x01'.join(tk[2:]) + '\x01'
            s = '%s\x019=%d\x01' % (tk[0], len(body)) + body
            return s + '10=%03d\x01' % fixref.checksum(s)
        if mut == 'longtag':
            toks.insert(pos, '9' * (1 + n % 4000) + '=x')
            data = join(toks)
        elif mut == 'longtagfirst':
            data = '9' * (1 + n % 4000) + wire
        elif mut == 'longval':
            tag = toks[min(pos, len(toks) - 1)].split('=')[0] if rnd.random() < 0.5 else '58'
            toks.insert(pos, tag + '=' + 'v' * min(n, 8100 - len(wire)))
            data = join(toks)
        elif mut == 'noeq':
            toks.insert(pos, '58' + 'x' * (n % 50))
            data = join(toks)
        elif mut == 'nosoh':
            data = join(toks)
            k = rnd.randint(10, len(data) - 1)
            data = data[:k].replace('\x01', '', 1) + data[k:] if rnd.random() < 0.5 else data[:k] + data[k:].replace('\x01', ' ')
        elif mut == 'hugecount':
            grp = [t.tag for t in list(sch.traits(mt).list) + list(sch.header.list) if t.grp]
            tag = rnd.choice(grp) if grp else 78
            toks.insert(pos, '%d=%d' % (tag, rnd.choice([2 ** 31 - 1, 2 ** 31, 2 ** 32 - 1, 10 ** 12, 65536, 1000000])))
            data = join(toks)
        elif mut == 'lenover':
            pairs = sch.header.pairs() + sch.traits(mt).pairs()
            a, b = rnd.choice(pairs)
            toks.insert(pos, '%d=%d' % (a, rnd.choice([n, 2047, 2048, 2 ** 31 - 1, 2 ** 32 - 1, len(wire)])))
            toks.insert(pos + 1, '%d=%s' % (b, 'd' * rnd.randint(0, 30)))
            data = join(toks)
        elif mut == 'datafit':
            L = rnd.choice([2046, 2047, 2047, 2048, 2048, 2049, 2050, n % 2100, 1])
            present = {t.split('=')[0] for t in toks}
            cands = [(None, a, b) for a, b in sch.traits(mt).pairs() + sch.header.pairs() if str(a) not in present]
            for tr in sch.traits(mt).list:
                if tr.grp and tr.sub is not None and str(tr.tag) not in present:
                    cands += [(tr, a, b) for a, b in tr.sub.pairs()]
            if not cands:
                toks.insert(pos, '58=' + 'v' * L)
            else:
                pref = [c for c in cands if c[0] is not None]
                tr, a, b = rnd.choice(pref if (pref and case['r'] & 1) else cands)
                payload = ''.join(chr(33 + (i * 7) % 90) for i in range(L))
                ins = ['%d=%d' % (a, L), '%d=%s' % (b, payload)]
                if tr is not None:
                    first = tr.sub.first()
                    lead = [] if first.tag in (a, b) else ['%d=%s' % (first.tag, fixref.ref_text(dict(zip('kv', fixref.default_value(first.ft)))))]
                    ins = ['%d=1' % tr.tag] + lead + ins
                    at = len(toks)           # group appended behind the body fields
                else:
                    at = pos
                toks[at:at] = ins
            data = join(toks)
        elif mut == 'trunc':
            data = wire[:n % (len(wire) + 1)]
            if rnd.random() < 0.5:
                data = data + wire[-7:]
        elif mut == 'bigtag':
            toks.insert(pos, '%d=1' % rnd.choice([65536, 65536 + 55, 2 ** 31, 2 ** 32 + 35, 10 ** 15]))
            data = join(toks)
        elif mut == 'badlen9':
            data = wire.replace('\x019=', '\x019=' + rnd.choice(['', '-', '99999999999999999999999999999999999999', 'x', '0']), 1)
        else:  # nul
            toks.insert(pos, '58=a\x00b')
            data = join(toks)
        ans = ex.call('decode %s %d %d %s reenc,print' % (case['schema'], int(case['nochk']), int(case['perm']), fixref.hexs(data)), timeout=30)
        if not ans.get('ok'):
            x = ans.get('x', {})
            if x.get('exc') == 'unknown':
                raise Violation('C03: factory threw something that is not a std::exception for %s input: %r' % (mut, data[:300]))
        return {'nontrivial': True, 'classes': ['dec:' + mut, 'accepted' if ans.get('ok') else 'threw:' + ans.get('x', {}).get('exc', '?')],
                'key': [case['schema'], data], 'sample': {'mutation': mut, 'input': data[:200].replace('\x01', '|')}}

    # -- (c)
    def run_enc(self, case, ex):
        sch = self.schemas[case['schema']]
        types = sch.types()
        mt = types[case['mt'] % len(types)]
        rnd = random.Random(case['r'])
        spec = fixref.minimal_spec(sch, mt, False)
        tr = sch.traits(mt)
        strs = [t for t in tr.list if t.ft == fixref.FT_string and not t.grp and t.tag not in [i['t'] for i in spec['b']]]
        hstrs = [t for t in sch.header.list if t.ft == fixref.FT_string and not t.automatic and t.tag not in [i['t'] for i in spec['h']]]
        pool = [('b', t) for t in strs] + [('h', t) for t in hstrs]
        rnd.shuffle(pool)
        for size, (sec, t) in zip(case['sizes'], pool):
            spec[sec].append({'t': t.tag, 'k': 's', 'v': 'A' * size})
        # many group elements
        for it in spec['b']:
            if it.get('g') and case['elems'] > 1:
                it['g'] = [list(it['g'][0]) for _ in range(case['elems'])]
                it['v'] = len(it['g']) if it['k'] == 'i' else str(len(it['g']))
        ref = fixref.ref_encode(sch, spec)
        blen = int(ref.split('\x01')[1][2:])
        if case['target'] and pool:
            # steer BodyLength to ENCODE_BODY_LIMIT + target - 40 .. by resizing one string (boundary search)
            want = ENCODE_BODY_LIMIT + case['target'] - 40
            for it in spec['b'] + spec['h']:
                if it['k'] == 's' and it['v'].startswith('A'):
                    newlen = len(it['v']) + (want - blen)
                    if newlen >= 1:
                        it['v'] = 'A' * newlen
                        ref = fixref.ref_encode(sch, spec)
                        blen = int(ref.split('\x01')[1][2:])
                    break
        if blen > ENCODE_BODY_LIMIT:
            return {'excluded': ['encode_body_longer_than_8184'], 'classes': ['enc:oversize_skipped']}
        ans = ex.call('build %s enc %s' % (case['schema'], fixref.spec_tokens(spec)), timeout=60)
        enc = ans.get('enc')
        if isinstance(enc, str):
            if bytes.fromhex(enc).decode('latin-1') != ref:
                raise Violation('C03: encoding of a large message (BodyLength %d) differs from the reference encoding' % blen)
            cls = 'enc:ok'
        else:
            if enc.get('exc') == 'unknown':
                raise Violation('C03: encode threw something that is not a std::exception: %r' % enc)
            cls = 'enc:threw'
        return {'nontrivial': True, 'classes': [cls, 'enc:near_limit' if blen > ENCODE_BODY_LIMIT - 64 else 'enc:below_limit'],
                'key': [case['schema'], mt, blen, case['sizes'], case['elems']], 'sample': {'schema': case['schema'], 'type': mt, 'BodyLength': blen}}

    def run(self, case, ex):
        if 'fuzz_hex' in case:
            rep = fuzzrun.replay('fuzz_factory', bytes.fromhex(case['fuzz_hex']))
            if rep is not None:
                raise Violation(rep)
            return {}
        if 'encode_oversize' in case:
            # reproducer of the open known finding: BodyLength > 8184 through Message::encode(f8String&)
            sch = self.schemas['UTEST']
            spec = fixref.minimal_spec(sch, 'D', False)
            spec['b'].append({'t': 58, 'k': 's', 'v': 'A' * case['encode_oversize']})
            ans = ex.call('build UTEST enc %s' % fixref.spec_tokens(spec), timeout=60)
            return {}
        return self.run_dec(case, ex) if case['mode'] == 'dec' else self.run_enc(case, ex)


CHECKS['C03'] = C03
