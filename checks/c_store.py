"""C26 persisters honour the store contract: generated operation histories against MemoryPersister and FilePersister,
compared step by step with a map + one control record."""
import pbt, fixref
from pbt import Violation, Executor
from hypothesis import strategies as st

MAXLEN = 8192     # Persister::MaxMsgLen (FIX8_MAX_MSG_LENGTH): the documented maximum length of a persisted message


def st_seq():
    # mostly a small key space so that collisions, gaps and neighbours are common; some larger numbers
    return st.one_of(st.integers(0, 12), st.integers(0, 12), st.integers(1, 40), st.integers(1, 400))


def st_bytes():
    frags = [b'8=FIX.4.2\x019=12\x0135=D\x0134=7\x0110=000\x01', b'\x00', b'\x01', b'\xff\xfe', b'=', b'abc', b'\x00\x00\x00\x00\x00\x00\x00\x00', b'\n']
    small = st.lists(st.one_of(st.sampled_from(frags), st.binary(min_size=0, max_size=6)), min_size=0, max_size=5).map(b''.join)
    big = st.tuples(st.sampled_from([255, 256, 4095, 4096, 8191, 8192]), st.integers(0, 255)).map(lambda t: bytes((t[1] + i * 7) & 255 for i in range(t[0])))
    return st.one_of(small, small, small, small, small, small, small, big)


class C26:
    id = 'C26'
    level = 'exploration'
    build = [('asan', 'fx')]
    workers = 8
    examples = 6000
    assumptions = ['sequence numbers passed to get / find_nearest_highest_seqnum / range get are >= 1 (0 is not a sequence number: it is only generated for put, '
                   'where the statement says it is refused)',
                   'messages are at most Persister::MaxMsgLen (8192) bytes, the documented maximum; any byte values, the empty string included',
                   'find_nearest_highest_seqnum is called with last <= a few hundred (callers pass get_last_seqnum; the search is linear in last - requested)',
                   'the range callback returns true (continue); from >= 1; to == 0 means "to the last", to < from (to != 0) is an empty range',
                   'file persister: close/reopen anywhere in the history, also with a message stored before any control record (the class was excluded until 4fedfd4 repaired it)',
                   'backends configured in this build: memory and file (BDB/memcached/redis are compiled out)']
    rule = ('Hypothesis draws a backend (memory | file) and a history of 3-40 operations: put message (numbers 0..400 dense near 0, contents over all byte '
            'values, empty, up to 8192 bytes), put control, get, get control, get_last_seqnum, find_nearest_highest_seqnum, range get, and for the file backend '
            'close/reopen. The whole history runs against a fresh real persister in the ASan/UBSan executor; every result is compared with a Python dict + one '
            'control tuple: put refused iff number is 0 or occupied, get returns exactly the stored bytes / fails for absent numbers, last = max key, control = '
            'last stored, nearest = min stored key in [requested, last] or 0, range get = callback once per stored key in range ascending with its bytes, then '
            'exactly one completion call (no_more_records set; the pair it carries is not constrained), return value = number of records. Non-trivial: a refused put, or a control record '
            'stored more than once, or a range get spanning a gap, or a get after reopen.')

    def __init__(self, tier):
        self.tier = tier
        if tier == 'thorough':
            self.examples = 200000
            self.workers = 16

    def strategy(self):
        seq = st_seq()
        u32 = st.one_of(st.integers(0, 50), st.integers(0, 2 ** 32 - 1), st.sampled_from([0, 1, 2 ** 31 - 1, 2 ** 31, 2 ** 32 - 1]))
        op = st.one_of(
            st.tuples(st.just('P'), seq, st_bytes()),
            st.tuples(st.just('P'), seq, st_bytes()),
            st.tuples(st.just('P'), seq, st_bytes()),
            st.tuples(st.just('C'), u32, u32),
            st.tuples(st.just('G'), seq.map(lambda x: max(1, x))),
            st.tuples(st.just('Gs'), st.integers(0, 50)),          # get the i-th stored number (resolved against the model when the history is run)
            st.tuples(st.just('K')),
            st.tuples(st.just('L')),
            st.tuples(st.just('N'), seq.map(lambda x: max(1, x)), st.integers(0, 3)),
            st.tuples(st.just('R'), seq.map(lambda x: max(1, x)), st.one_of(st.just(0), seq)),
            st.tuples(st.just('O')),
        )
        return st.tuples(st.sampled_from(['mem', 'file']), st.lists(op, min_size=3, max_size=40)).map(
            lambda t: {'kind': t[0], 'ops': [[o[0]] + [x.hex() if isinstance(x, bytes) else x for x in o[1:]] for o in t[1]]})

    def run(self, case, ex):
        kind = case['kind']
        ops = [list(o) for o in case['ops']]
        excluded = []
        if kind == 'mem':
            ops = [o for o in ops if o[0] != 'O']
        if not ops:
            return {'excluded': excluded}
        # model
        store, control = {}, None
        toks, expect = [], []
        cls = ['backend:' + kind]
        nontrivial = False
        ncontrol = 0
        reopened = False
        for o in ops:
            k = o[0]
            if k == 'P':
                seqn, data = o[1], bytes.fromhex(o[2])
                toks.append('P%d:%s' % (seqn, o[2] or '-'))
                ok = seqn != 0 and seqn not in store
                if ok:
                    store[seqn] = data
                else:
                    nontrivial = True
                    cls.append('refused_put')
                expect.append(ok)
            elif k == 'C':
                toks.append('C%d:%d' % (o[1], o[2]))
                control = (o[1], o[2])
                ncontrol += 1
                if ncontrol > 1:
                    nontrivial = True
                    cls.append('control_overwritten')
                expect.append(True)
            elif k in ('G', 'Gs'):
                if k == 'Gs':
                    o = ['G', sorted(store)[o[1] % len(store)] if store else o[1] + 1]
                toks.append('G%d' % o[1])
                expect.append({'ok': True, 'v': store[o[1]].hex()} if o[1] in store else {'ok': False})
                if reopened and o[1] in store:
                    nontrivial = True
                    cls.append('get_after_reopen')
            elif k == 'K':
                toks.append('K')
                expect.append({'ok': True, 's': control[0], 't': control[1]} if control else {'ok': False})
            elif k == 'L':
                toks.append('L')
                last = max(store) if store else 0
                expect.append({'ret': last, 'to': last})
            elif k == 'N':
                last = max(store) if store else 0
                # callers pass the last sequence number; also probe smaller bounds
                bound = max(0, last - o[2])
                toks.append('N%d:%d' % (o[1], bound))
                cands = [s for s in store if o[1] <= s <= bound]
                expect.append(min(cands) if cands else 0)
            elif k == 'R':
                frm, to = o[1], o[2]
                toks.append('R%d:%d' % (frm, to))
                last = max(store) if store else 0
                finish = last if to == 0 else to
                keys = sorted(s for s in store if frm <= s <= finish)
                ev = [[s, store[s].hex(), False] for s in keys] + [[0, '', True]]
                expect.append({'ret': len(keys), 'ev': ev})
                inrange = set(range(frm, finish + 1)) if finish - frm < 2000 else set()
                if keys and len(keys) < len(inrange) and any(s not in store for s in range(keys[0], keys[-1] + 1)):
                    nontrivial = True
                    cls.append('range_over_gap')
            elif k == 'O':
                toks.append('O')
                expect.append(True)
                reopened = True
                cls.append('reopen')
        ans = ex.call('store %s %s' % (kind, ' '.join(toks)))
        if len(ans) != len(expect):
            raise Violation('C26: %s persister: %d results for %d operations\n history: %s' % (kind, len(ans), len(expect), ' '.join(toks)))
        for i, (got, want) in enumerate(zip(ans, expect)):
            if isinstance(want, dict) and want.get('ok') is False:
                bad = got.get('ok') is not False          # what the out-parameters hold after a failed get is not constrained
            elif isinstance(want, dict) and 'ev' in want:
                # the completion call is identified by no_more_records; which pair it carries is not constrained
                ge = got.get('ev') or []
                bad = (got.get('ret') != want['ret'] or len(ge) != len(want['ev']) or ge[:-1] != want['ev'][:-1]
                       or ge[-1][2] is not True)
            else:
                bad = got != want
            if bad:
                raise Violation('C26: %s persister, operation #%d %s: got %s, the store contract gives %s\n history: %s' % (
                    kind, i, show_tok(toks[i]), show_res(got), show_res(want), ' '.join(show_tok(t) for t in toks[:i + 1])))
        return {'nontrivial': nontrivial, 'classes': sorted(set(cls)), 'excluded': excluded, 'key': [kind, toks],
                'sample': {'backend': kind, 'history': ' '.join(show_tok(t) for t in toks)}}


def show_tok(t):
    if t[0] == 'P' and len(t) > 60:
        return t[:40] + '...(%d bytes)' % ((len(t) - t.index(':') - 1) // 2)
    return t


def show_res(r):
    s = pbt.jdump(r)
    return s if len(s) < 400 else s[:400] + '...'


CHECKS = {'C26': C26}


# ================================================================================================
# C27: the file persister survives a crash at every write/seek of every generated history
# ================================================================================================
class C27:
    id = 'C27'
    level = 'fault_enumeration'
    build = [('plain', 'fxc')]
    workers = 8
    examples = 1500
    assumptions = ['the crash executor is a build of the working tree without sanitizers (fork of an ASan process is ~100x slower; memory safety of the persister is C26\'s ASan run); a crash is the death of the process right after a completed write() or lseek() system call on one of the persister\'s two files (the executable routes both calls '
                   'through counting wrappers; a forked child _exit()s at the chosen point); what was written by completed system calls is on disk, nothing else is (no torn writes, no '
                   'reordering by the file system)',
                   'for each generated history EVERY crash point is enumerated (the dry run counts them); histories: 1-8 store operations with distinct sequence numbers, message sizes '
                   '0-300 bytes over all byte values, control stores anywhere - including none in front of the first message',
                   'the operation in flight at the crash may be visible or not after the reopen (its own bytes or nothing; the old or the new control record)',
                   'after the reopen 1-3 further stores (fresh numbers) are made, the store is closed and reopened again and everything is read back']
    rule = ('Hypothesis draws a history of message and control stores and a post-crash history; the executor enumerates every crash point k of the history (after each completed write/seek). '
            'For each k a model of the completed operations decides: every completed message store is read back byte-identical after the reopen, the number in flight returns its own bytes or '
            'nothing, every other number returns nothing, the control record equals the last completed control store (or the one in flight), the further stores succeed and everything is '
            'still there after a second reopen. evaluations = crash runs; non-trivial = a crash inside an operation (not on its last system call) of a history with >= 2 operations.')

    def __init__(self, tier):
        self.tier = tier
        if tier == 'thorough':
            self.examples = 20000
            self.workers = 16

    def make_executor(self):
        return Executor(exe='fxc', flavour='plain', timeout=240.0)

    def strategy(self):
        data = st.one_of(st_bytes(), st.binary(min_size=0, max_size=300))
        pre = st.lists(st.one_of(st.tuples(st.just('P'), st.integers(1, 12), data), st.tuples(st.just('P'), st.integers(1, 12), data),
                                 st.tuples(st.just('C'), st.integers(0, 2 ** 32 - 1), st.integers(0, 2 ** 32 - 1))), min_size=1, max_size=8)
        post = st.lists(st.one_of(st.tuples(st.just('P'), st.integers(20, 26), data), st.tuples(st.just('C'), st.integers(0, 5000), st.integers(0, 5000))), min_size=1, max_size=3)
        return st.fixed_dictionaries({'pre': pre, 'post': post}).map(self.norm)

    @staticmethod
    def norm(c):
        def dedup(ops):
            seen, out = set(), []
            for o in ops:
                if o[0] == 'P':
                    if o[1] in seen or len(o[2]) > 300:
                        continue
                    seen.add(o[1])
                    out.append(['P', o[1], o[2].hex()])
                else:
                    out.append(['C', o[1], o[2]])
            return out
        return {'pre': dedup(c['pre']), 'post': dedup(c['post'])}

    def run(self, case, ex):
        pre, post = case['pre'], case['post']
        if not pre:
            return {}
        tok = lambda o: ('P%d:%s' % (o[1], o[2] or '-')) if o[0] == 'P' else 'C%d:%d' % (o[1], o[2])
        a = ex.call('crash %s | %s' % (' '.join(map(tok, pre)), ' '.join(map(tok, post))), timeout=230)
        hist = ' '.join(show_tok(tok(o)) for o in pre)
        n = a['n']
        self.points = getattr(self, 'points', 0) + n
        inside = 0
        for r in a['runs']:
            k, done = r['k'], r['done']
            desc = 'history [%s], crash after completed write/seek #%d of %d (%d operations had returned), then [%s]' % (hist, k, n, done, ' '.join(show_tok(tok(o)) for o in post))

            def fail(msg):
                raise Violation('C27: %s\n %s\n observed: %s' % (msg, desc, show_res(r)))
            store, control = {}, None
            for o in pre[:done]:
                if o[0] == 'P': store[o[1]] = o[2]
                else: control = (o[1], o[2])
            fl = pre[done] if done < len(pre) else None
            if not r['open']:
                fail('the store cannot be reopened after the crash')
            if r['rc'] not in (0, 1):
                fail('the child did not end at the crash point (exit status %s)' % r['rc'])

            def check_reads(reads, ctrl, store, control, fl, when):
                for s, (ok, v) in reads.items():
                    s = int(s)
                    if s in store:
                        if not ok or v != store[s]:
                            fail('%s: message %d, whose store had completed, is %s' % (when, s, 'missing' if not ok else 'returned with other bytes (%d bytes instead of %d)' % (len(v) // 2, len(store[s]) // 2)))
                    elif fl is not None and fl[0] == 'P' and fl[1] == s:
                        if ok and v != fl[2]:
                            fail('%s: message %d (in flight at the crash) returns bytes that were never stored for it' % (when, s))
                    elif ok:
                        fail('%s: number %d, for which nothing was stored, returns %d bytes' % (when, s, len(v) // 2))
                allowed = [control] + ([(fl[1], fl[2])] if fl is not None and fl[0] == 'C' else [])
                got = (ctrl[1], ctrl[2]) if ctrl[0] else None
                if got not in allowed:
                    fail('%s: control record is %s, last completed control store %s%s' % (when, got, control, '' if len(allowed) == 1 else ' (in flight: %s)' % (allowed[1],)))
                return got
            c_after = check_reads(r['r1'], r['c1'], store, control, fl, 'after the reopen')
            if not all(r['post']):
                fail('a store after the reopen was refused: %s' % r['post'])
            store2 = dict(store)
            control2 = c_after
            for o in post:
                if o[0] == 'P': store2[o[1]] = o[2]
                else: control2 = (o[1], o[2])
            if not r['open2']:
                fail('the store cannot be reopened after the post-crash stores')
            fl2 = fl if (fl is not None and fl[0] == 'P') else None
            check_reads(r['r2'], r['c2'], store2, control2, fl2, 'after the second reopen')
            if fl is not None:
                inside += 1
        return {'nontrivial': inside >= 1 and len(pre) >= 2, 'classes': ['ops:%d' % len(pre), 'message_first' if pre[0][0] == 'P' else 'control_first'],
                'key': case, 'sample': {'history': hist, 'crash_points': n, 'post': [show_tok(tok(o)) for o in post]}}

    def finish(self, stats):
        stats.extra['crash_runs'] = getattr(self, 'points', 0)


CHECKS['C27'] = C27
