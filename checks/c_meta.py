"""C10 realm (enumerated value) lookups; C12 metadata lookup tables and the presorted_set state machine."""
import bisect, random
import pbt, fixref
from pbt import Violation, Executor, Stats
from hypothesis import strategies as st
from c_codec_rt import SCHEMAS

FT = fixref


def realm_kind(realm):
    ft = realm['ft']
    return 'i' if FT.is_int(ft) else 'c' if FT.is_char(ft) else 'f' if FT.is_float(ft) else 's'


def realm_values(realm):
    k = realm_kind(realm)
    if k == 'f': return [float.fromhex(v) for v in realm['vals']]
    if k == 's': return [bytes.fromhex(v).decode('latin-1') for v in realm['vals']]
    return list(realm['vals'])


def arg_of(k, v):
    if k == 'i': return 'i:%d' % v
    if k == 'c': return 'c:%d' % v
    if k == 'f': return 'f:%s:2' % float(v).hex()
    return 's:' + fixref.hexs(v)


class C10:
    id = 'C10'
    level = 'exploration'
    build = [('asan', 'fx')]
    workers = 4
    examples = 2000
    assumptions = ['realm tables are read from the compiled code by linear iteration (the oracle is a linear scan / Python set, not the library\'s binary search)',
                   'fields are created through the schema\'s own instantiator with the realm attached, as the decoder does',
                   'Boolean fields report their realm index through their own Y/N mapping and are scanned over both values']
    rule = ('Every field with a realm in FIX42UTEST and FIX44. Enumerated part (exhaustive per field): char realms all 255 non-NUL chars; int realms every '
            'member +-2 and the window [-1100, 1100]; string realms every member, every proper prefix, member+suffix, case flips, and all strings of '
            'length <= 2 over a 40-symbol alphabet; float realms members, members +- eps and midpoints. Hypothesis part: random values of the field type '
            '(strings <= 3 chars, ints, chars, floats) on a random realm field. Oracle: get_rlm_idx >= 0 <=> value is a member, and then vals[idx] == value '
            'and the description is that member\'s; is_valid <=> member (set) or lo <= v <= hi (range); the line printed by MessageBase::print shows a '
            'description <=> member. Non-trivial: a non-member that sorts below the largest member (where lower_bound returns a valid index).')

    def __init__(self, tier):
        self.tier = tier
        ex = Executor()
        self.schemas = {n: fixref.load_schema(ex, n) for n in SCHEMAS}
        ex.close()
        self.realm_fields = [(n, tag, f['realm']) for n in SCHEMAS for tag, f in sorted(self.schemas[n].fields.items()) if f.get('realm')]
        if tier == 'thorough':
            self.examples = 60000
            self.workers = 16

    # ---- oracle
    def judge(self, sname, tag, realm, k, v, ans, where=''):
        vals = realm_values(realm)
        descs = realm['descs']
        if realm['kind'] == 'set':
            member = v in vals
            below_max = (not member) and len(vals) > 0 and v < max(vals)
        else:
            member = vals[0] <= v <= vals[1]
            below_max = False
        ri = ans['ri']
        shown = '%s field %d value %r (realm %s %s)' % (sname, tag, v, realm['kind'], vals if len(vals) < 12 else '%d values' % len(vals))
        if realm['kind'] == 'set':
            if member:
                want = vals.index(v)
                if ri != want:
                    raise Violation('C10: %s is a member (index %d) but get_rlm_idx() = %d%s' % (shown, want, ri, where))
                if descs and ans.get('desc') != descs[want]:
                    raise Violation('C10: %s reports description %r, expected %r%s' % (shown, ans.get('desc'), descs[want], where))
            elif ri >= 0:
                raise Violation('C10: %s is not a member of the domain but get_rlm_idx() = %d (description %r would be printed)%s' % (
                    shown, ri, ans.get('desc'), where))
        if ans['valid'] != member:
            raise Violation('C10: %s: is_valid() = %r but membership/range inclusion is %r%s' % (shown, ans['valid'], member, where))
        return member, below_max

    def candidates(self, realm):
        k = realm_kind(realm)
        vals = realm_values(realm)
        out = []
        if k == 'c':
            out = list(range(1, 256))
        elif k == 'i':
            s = set(range(-1100, 1101))
            for m in vals:
                s.update(range(m - 2, m + 3))
            out = sorted(x for x in s if -2 ** 31 <= x < 2 ** 31)
        elif k == 'f':
            s = set()
            sv = sorted(vals)
            for m in sv:
                s.update([m, m + 1e-9, m - 1e-9, m + 0.01, m - 0.01, -m])
            for a, b in zip(sv, sv[1:]):
                s.add((a + b) / 2)
            s.update([0.0, -1.0, 1e9])
            out = sorted(s)
        else:
            alpha = 'ABCXYZabcxyz0123456789 _-./=|~!#%&()*+,:;<>?@[]^'[:40]
            s = set(vals)
            for m in vals:
                for i in range(1, len(m)):
                    s.add(m[:i])
                s.update([m + 'A', m + '0', m + ' ', m.lower(), m.upper(), m.swapcase(), ' ' + m, m[:-1] + chr((ord(m[-1]) + 1) % 127 or 65) if m else 'A'])
            s.update(alpha)
            s.update(a + b for a in alpha for b in alpha)
            s.discard('')
            out = sorted(x for x in s if '\x00' not in x and '\x01' not in x)
        return k, out

    def print_hosts(self, sname):
        """tag -> (msgtype, section) where the field can be placed at top level of a message"""
        sch = self.schemas[sname]
        hosts = {}
        for t in sch.header.list:
            if not t.automatic and not t.grp: hosts.setdefault(t.tag, (sorted(sch.msgs)[0], 'h'))
        for mt in sch.types():
            for t in sch.traits(mt).list:
                if not t.grp: hosts.setdefault(t.tag, (mt, 'b'))
        return hosts

    def pre_search(self, stats, seed):
        """the enumerated (exhaustive) part"""
        ex = Executor()
        try:
            for sname, tag, realm in self.realm_fields:
                sch = self.schemas[sname]
                k, cands = self.candidates(realm)
                bools = realm['ft'] == FT.FT_Boolean
                for i in range(0, len(cands), 400):
                    chunk = cands[i:i + 400]
                    if bools:
                        chunk = [c for c in chunk if c in (78, 89)]
                        if not chunk: continue
                        args = ['b:%d' % (1 if c == 89 else 0) for c in chunk]
                    else:
                        args = [arg_of(k, v) for v in chunk]
                    try:
                        res = ex.call('field %s %d %s' % (sname, tag, ' '.join(args)))
                    except RuntimeError as e:
                        if 'kind does not match' in str(e):
                            stats.excluded['realm_type_differs_from_field_class'] += 1
                            break
                        raise
                    for v, ans in zip(chunk, res):
                        stats.evaluations += 1
                        try:
                            member, below = self.judge(sname, tag, realm, k, v, ans)
                        except Violation as viol:
                            return {'case': {'schema': sname, 'tag': tag, 'k': 'b' if bools else k, 'v': v}, 'msg': str(viol)}
                        stats.classes['member' if member else 'nonmember'] += 1
                        if below:
                            stats.nontrivial.add(pbt.case_hash([sname, tag, v]))
                            if len(stats.samples) < 3:
                                stats.samples.append({'schema': sname, 'tag': tag, 'value': v, 'realm': realm_values(realm)[:8], 'rlm_idx': ans['ri']})
            stats.extra['realm_fields'] = len(self.realm_fields)
            stats.extra['exhaustive_enumerated_part'] = True
        finally:
            ex.close()
        return None

    def strategy(self):
        def per_field(i):
            sname, tag, realm = self.realm_fields[i]
            k = realm_kind(realm)
            if realm['ft'] == FT.FT_Boolean:
                return st.tuples(st.sampled_from([78, 89]), st.booleans()).map(lambda t: {'schema': sname, 'tag': tag, 'k': 'b', 'v': t[0], 'print': False})
            if k == 'i': vs = st.one_of(st.integers(-2 ** 31, 2 ** 31 - 1), st.integers(-200, 200))
            elif k == 'c': vs = st.integers(1, 255)
            elif k == 'f': vs = st.floats(-1e6, 1e6, allow_nan=False)
            else: vs = st.text(alphabet=st.characters(min_codepoint=0x20, max_codepoint=0x7e), min_size=1, max_size=3)
            return st.tuples(vs, st.booleans()).map(lambda t: {'schema': sname, 'tag': tag, 'k': k, 'v': t[0], 'print': t[1]})
        return st.integers(0, len(self.realm_fields) - 1).flatmap(per_field)

    def run(self, case, ex):
        sname, tag, k, v = case['schema'], case['tag'], case['k'], case['v']
        sch = self.schemas[sname]
        realm = sch.fields[tag]['realm']
        if k == 'b':
            arg = 'b:%d' % (1 if v == 89 else 0)
        else:
            arg = arg_of(k, v)
        try:
            ans = ex.call('field %s %d %s' % (sname, tag, arg))[0]
        except RuntimeError as e:
            if 'kind does not match' in str(e):
                return {'excluded': ['realm_type_differs_from_field_class']}
            raise
        member, below = self.judge(sname, tag, realm, 'c' if k == 'b' else k, v, ans)
        cls = ['member' if member else 'nonmember']
        # the printer
        if case.get('print') and k != 'b':
            if not hasattr(self, '_hosts'): self._hosts = {n: self.print_hosts(n) for n in SCHEMAS}
            host = self._hosts[sname].get(tag)
            ftypes = None
            if host:
                mt, sec = host
                tr = (sch.header if sec == 'h' else sch.traits(mt))[tag]
                if fixref.kind_of(tr.ft) == k:
                    toks = 'M %s %s F %d %s' % (fixref.hexs(mt), 'H' if sec == 'h' else 'B', tag, arg)
                    out = ex.call('build %s print %s' % (sname, toks))
                    text = bytes.fromhex(out['print']).decode('latin-1')
                    name = sch.fields[tag]['name']
                    lines = [l for l in text.split('\n') if l.strip().startswith(name + ' ') and '(%d): ' % tag in l]
                    if len(lines) != 1:
                        raise Violation('C10: printer output has %d lines for field %d\n%s' % (len(lines), tag, text))
                    rest = lines[0].split('(%d): ' % tag, 1)[1]
                    vals = realm_values(realm)
                    descs = realm['descs']
                    cls.append('printed')
                    if realm['kind'] == 'set' and descs:
                        if member:
                            want = descs[vals.index(v)]
                            if not rest.startswith(want + ' ('):
                                raise Violation('C10: printer shows %r for %s field %d value %r, expected description %r' % (rest, sname, tag, v, want))
                        else:
                            hit = [d for d in descs if d and rest.startswith(d + ' (')]
                            if hit:
                                raise Violation('C10: printer describes non-member value %r of %s field %d (%s) as %r: %r' % (
                                    v, sname, tag, name, hit[0], rest))
        return {'nontrivial': below, 'classes': cls, 'key': [sname, tag, v],
                'sample': {'schema': sname, 'tag': tag, 'value': v, 'rlm_idx': ans['ri'], 'member': member}}


# ------------------------------------------------------------------------------------------------
class C12:
    id = 'C12'
    level = 'exploration'
    build = [('asan', 'fx')]
    workers = 8
    examples = 5000
    assumptions = ['the oracle for the generated tables is a linear walk over the same tables (begin()..end()) and over the dumped trait arrays',
                   'presorted_set: only insert(...).second, find results, at() and the iteration order/contents are asserted (what callers use); '
                   'an empty set is constructed with reserve >= 1 (reserve 0 on an empty set is a constructor precondition, not part of the claim)']
    rule = ('Exhaustive part: find_be(t) for every t in 0..65535 vs the field table walked linearly; the message table, reverse field/message tables for '
            'every key plus generated near-misses (prefixes, one char appended/changed, case flips, empty, long); has/getPos/is_mandatory/is_group for '
            'every t in 0..65535 on every message, header, trailer and (nested) group trait set vs the dumped trait array. Hypothesis part: operation '
            'sequences (new from sorted array or empty, insert, insert-range, find via all overloads, at, clear, copy) on presorted_set (generic '
            'template and FieldTrait specialisation) vs a Python sorted set, checked after every step. Non-trivial sequence: an insert that '
            'reallocates after a clear, or a find miss between two present keys.')

    def __init__(self, tier):
        self.tier = tier
        ex = Executor()
        self.schemas = {n: fixref.load_schema(ex, n) for n in SCHEMAS}
        ex.close()
        if tier == 'thorough':
            self.examples = 200000
            self.workers = 16

    @staticmethod
    def near_misses(keys, rnd):
        out = set(keys)
        for k in keys:
            for i in range(len(k)):
                out.add(k[:i])
            out.update([k + 'A', k + '0', k.lower(), k.upper(), k.swapcase(), k + k, ' ' + k])
            if k:
                out.add(k[:-1] + chr(ord(k[-1]) + 1))
                out.add(k[:-1] + chr(max(33, ord(k[-1]) - 1)))
                out.add(chr(ord(k[0]) ^ 32) + k[1:])
        out.update(['x' * 32, 'ZZZZZZ', '~', '!', '0', 'a'])
        return sorted(x for x in out if '\x00' not in x and ' ' not in x.strip() or x)

    def pre_search(self, stats, seed):
        ex = Executor()
        rnd = random.Random(seed)
        try:
            for sname in SCHEMAS:
                sch = self.schemas[sname]
                # 1. field table, all tags
                hits = ex.call('findbe ' + sname)
                got = {h[0]: (h[1], h[2]) for h in hits}
                want = {tag: (f['name'], f['fnum']) for tag, f in sch.fields.items()}
                stats.evaluations += 65536
                if got != want:
                    diff = sorted(set(got.items()) ^ set(want.items()))[:6]
                    return {'case': {'kind': 'findbe', 'seed': seed, 'schema': sname}, 'msg': 'C12: find_be over 0..65535 disagrees with the field table: %r' % diff}
                stats.nontrivial.update(pbt.case_hash([sname, 'be', t]) for t in range(0, 65536, 257) if t not in want)
                # 2. message table + near misses
                raw = sch.raw['msgs']
                keys = sorted(raw)
                probes = [k for k in self.near_misses(keys, rnd) if k and ' ' not in k and '\n' not in k]
                res = ex.call('bme %s %s' % (sname, ' '.join(fixref.hexs(p) for p in probes)))
                for p, r in zip(probes, res):
                    stats.evaluations += 1
                    if p in raw:
                        if not r or r[0] != raw[p]['name'] or r[1] != p:
                            return {'case': {'kind': 'bme', 'seed': seed, 'schema': sname, 'key': p}, 'msg': 'C12: message table lookup of present key %r returned %r' % (p, r)}
                    else:
                        stats.nontrivial.add(pbt.case_hash([sname, 'bme', p]))
                        if r:
                            return {'case': {'kind': 'bme', 'seed': seed, 'schema': sname, 'key': p}, 'msg': 'C12: message table lookup of absent key %r hit %r' % (p, r)}
                # 3. reverse tables
                fnames = {f['name']: tag for tag, f in sch.fields.items()}
                mnames = {v['name']: k for k, v in raw.items()}
                probes = [k for k in self.near_misses(sorted(fnames)[::7] + sorted(mnames), rnd) if k and ' ' not in k] + sorted(fnames)
                for i in range(0, len(probes), 300):
                    chunk = probes[i:i + 300]
                    res = ex.call('reverse %s %s' % (sname, ' '.join(fixref.hexs(p) for p in chunk)))
                    for p, r in zip(chunk, res):
                        stats.evaluations += 1
                        wf = fnames.get(p, 0)
                        if r['fnum'] != wf or (('be_fnum' in r) != (p in fnames)) or (p in fnames and (r['be_fnum'] != wf or r['be_name'] != p)):
                            return {'case': {'kind': 'reverse', 'seed': seed, 'schema': sname, 'key': p}, 'msg': 'C12: reverse field lookup of %r returned %r, table says %r' % (p, r, wf)}
                        if (('bme_name' in r) != (p in mnames)) or (p in mnames and r['bme_name'] != p):
                            return {'case': {'kind': 'reverse', 'seed': seed, 'schema': sname, 'key': p}, 'msg': 'C12: reverse message lookup of %r returned %r' % (p, r)}
                        if p not in fnames and p not in mnames:
                            stats.nontrivial.add(pbt.case_hash([sname, 'rev', p]))
                # 4. trait sets of every message/header/trailer/group, all tags
                def scan(path_key, traits, mt, path):
                    res = ex.call('traitscan %s %s %s' % (sname, mt if mt in ('header', 'trailer') else fixref.hexs(mt), ' '.join(map(str, path))))
                    stats.evaluations += 65536
                    got = {r[0]: r[1:] for r in res}
                    want = {}
                    for t in traits.list:
                        haspos = bool(t.bits & fixref.BIT_POSITION)
                        want[t.tag] = [1, 1, 1, t.pos if haspos else 0, int(t.man), int(t.grp), t.comp]
                    if got != want:
                        bad = sorted(k for k in set(got) | set(want) if got.get(k) != want.get(k))[:5]
                        return {'case': {'kind': 'traitscan', 'seed': seed, 'schema': sname, 'msg': mt, 'path': path},
                                'msg': 'C12: trait set %s/%s %s: lookups over 0..65535 disagree with the trait array for tags %s: got %s want %s' % (
                                    sname, mt, path, bad, [got.get(b) for b in bad], [want.get(b) for b in bad])}
                    stats.classes['trait_sets_scanned'] += 1
                    for t in traits.list:
                        if t.grp and t.sub is not None and len(path) < 4:
                            f = scan(path_key, t.sub, mt, path + [t.tag])
                            if f: return f
                    return None
                mts = ['header', 'trailer'] + sch.types()
                if self.tier == 'quick':
                    mts = ['header', 'trailer'] + [m for i, m in enumerate(sch.types()) if (i + seed) % 4 == 0]
                for mt in mts:
                    traits = sch.header if mt == 'header' else sch.trailer if mt == 'trailer' else sch.traits(mt)
                    f = scan(mt, traits, mt, [])
                    if f: return f
            stats.samples.append({'exhaustive': 'find_be 0..65535, msg table near-misses, reverse tables, trait sets 0..65535 per message/group'})
            stats.extra['exhaustive_enumerated_part'] = True
        finally:
            ex.close()
        return None

    # ---- presorted_set state machine as a generated operation list (whole sequence shrinks as one value)
    def strategy(self):
        key = st.one_of(st.integers(0, 60), st.integers(0, 65535))
        op = st.one_of(
            st.tuples(st.just('ins'), key),
            st.tuples(st.just('ins'), key),
            st.tuples(st.just('find'), key),
            st.tuples(st.just('at'), st.integers(0, 70)),
            st.tuples(st.just('insrange'), st.lists(key, min_size=0, max_size=6)),
            st.tuples(st.just('clear'), st.just(0)),
            st.tuples(st.just('copy'), st.just(0)),
            # a run of inserts placed relative to the current contents (just below the maximum, above it, below the minimum, in the middle, the maximum again):
            # long enough to walk through the capacity steps (30, 39, 50, ... or size + 30%) with every kind of landing position
            st.tuples(st.just('burst'), st.tuples(st.sampled_from(['before_max', 'before_max', 'after_max', 'before_min', 'mid', 'dup_max']), st.integers(1, 45))),
        )
        init = st.lists(key, min_size=0, max_size=40, unique=True).map(sorted)
        return st.fixed_dictionaries({'kind': st.sampled_from(['g', 'f']), 'init': init, 'from_array': st.booleans(),
                                      'reserve': st.sampled_from([0, 1, 30, 30, 100, 5]), 'ops': st.lists(op, min_size=1, max_size=30)})

    def run(self, case, ex):
        kind = case['kind']
        if kind in ('findbe', 'bme', 'reverse', 'traitscan'):
            # a failure of the enumerated part: the enumeration is deterministic, replaying it is running it again
            f = self.pre_search(pbt.Stats(), case.get('seed', 0))
            if f is not None:
                raise Violation(f['msg'])
            return {}
        init = list(case['init']) if case['from_array'] else []
        reserve = case['reserve']
        if not init and reserve == 0:
            reserve = 1
        model = list(init)
        realloc_after_clear = False
        cleared = False
        miss_between = False
        st0 = ex.call('ps %s new %d %d %s' % (kind, reserve, 1 if case['from_array'] and init else 0, ' '.join(map(str, init))))

        def check_state(ans, what):
            s = ans['st']
            if s['keys'] != model or s['size'] != len(model) or s['empty'] != (not model):
                raise Violation('C12: presorted_set<%s> after %s: contents %r size %d, model %r\nsequence: %s' % (
                    kind, what, s['keys'], s['size'], model, pbt.jdump(case)))
        check_state(st0, 'construction')
        def rel_key(where):
            if not model: return 30000
            if where == 'after_max': return model[-1] + 499 if model[-1] + 499 <= 65535 else None
            if where == 'before_min': return model[0] - 1 if model[0] > 0 else None
            if where == 'dup_max': return model[-1]
            if where == 'before_max':
                lo = model[-2] if len(model) > 1 else -1
                return (lo + model[-1] + 1) // 2 if model[-1] - lo >= 2 else None
            i = len(model) // 2
            a, b = (model[i - 1] if i else -1), model[i]
            return (a + b + 1) // 2 if b - a >= 2 else None
        ops = []
        for name, arg in case['ops']:
            if name == 'burst':
                ops += [('insrel', arg[0])] * arg[1]
            else:
                ops.append((name, arg))
        for name, arg in ops:
            if name == 'insrel':
                key = rel_key(arg)
                if key is None:
                    key = rel_key('after_max')
                if key is None:
                    continue
                name, arg = 'ins', key
            if name == 'ins':
                ans = ex.call('ps %s ins %d' % (kind, arg))
                want = arg not in model
                if want:
                    bisect.insort(model, arg)
                    if cleared: realloc_after_clear = True
                if ans['ok'] != want:
                    raise Violation('C12: presorted_set<%s>.insert(%d).second = %r, model says %r\nsequence: %s' % (kind, arg, ans['ok'], want, pbt.jdump(case)))
            elif name == 'insrange':
                ans = ex.call('ps %s insrange %s' % (kind, ' '.join(map(str, arg))))
                for a in arg:           # range insert stops at the first duplicate
                    if a in model: break
                    bisect.insort(model, a)
            elif name == 'find':
                ans = ex.call('ps %s find %d' % (kind, arg))
                f = ans['find']
                present = arg in model
                ok = f[0] == int(present) and f[3] == int(present) and f[4] == int(present) and f[5] == int(present) and (not present or f[1] == arg)
                if kind == 'f': ok = ok and f[7] == int(present)
                if present and kind == 'g': ok = ok and f[2] == arg * 7 + 1
                if present and kind == 'f': ok = ok and f[2] == arg % 1000 + 1
                if not present and f[6] != bisect.bisect_left(model, arg): ok = False
                if present and f[6] != model.index(arg): ok = False
                if not ok:
                    raise Violation('C12: presorted_set<%s>.find(%d) = %r, present in model: %r (model %r)\nsequence: %s' % (kind, arg, f, present, model, pbt.jdump(case)))
                if not present and model and model[0] < arg < model[-1]: miss_between = True
            elif name == 'at':
                ans = ex.call('ps %s at %d' % (kind, arg))
                want = model[arg] if arg < len(model) else -1
                if ans['at'] != want:
                    raise Violation('C12: presorted_set<%s>.at(%d) = %r, model %r\nsequence: %s' % (kind, arg, ans['at'], want, pbt.jdump(case)))
            elif name == 'clear':
                ans = ex.call('ps %s clear' % kind)
                model = []
                cleared = True
            elif name == 'copy':
                ans = ex.call('ps %s copy' % kind)
                if ans['copy']['keys'] != model:
                    raise Violation('C12: copy of presorted_set<%s> has %r, model %r\nsequence: %s' % (kind, ans['copy']['keys'], model, pbt.jdump(case)))
            check_state(ans, '%s %r' % (name, arg))
        return {'nontrivial': realloc_after_clear or miss_between, 'classes': ['kind:' + kind] + (['insert_after_clear'] if realloc_after_clear else []) +
                (['miss_between'] if miss_between else []), 'key': case}


CHECKS = {'C10': C10, 'C12': C12}
