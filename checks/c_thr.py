"""C28 (loggers write every accepted line exactly once, in order) and C29 (rotation keeps generations and stays in bounds):
generated producer workloads / directory states run against the real FileLogger and FilePersister in the ASan/UBSan executor."""
import re
import pbt
from pbt import Violation
from hypothesis import strategies as st

LEVELS = 'diwef'
LEVEL_NAMES = {'d': 'Debug', 'i': 'Info ', 'w': 'Warn ', 'e': 'Error', 'f': 'Fatal'}
LINE_RE = re.compile(r'^(\d{7}) (.) (Debug|Info |Warn |Error|Fatal) (P(\d+)L(\d+))$')


def hx(b):
    return b.hex() if b else '-'


class C28:
    id = 'C28'
    level = 'exploration'
    schedule_sampled = True
    build = [('asan', 'fx')]
    workers = 8
    examples = 1500
    assumptions = ['FileLogger with the sequence, thread and level fields, default positions and delimiter; 1-8 real producer threads call Logger::send; thread schedules are sampled by the '
                   'operating system (plus generated yields), not enumerated',
                   'stop() is called by the harness either after all producers have finished or while they run; a line is "submitted before the logger is stopped" when its send() had '
                   'returned before stop() was entered (an atomic flag read right after the return); for lines racing with stop() only "at most once" is demanded',
                   'the file is read after stop() has returned and before the logger object is destroyed',
                   'the return value of send() at a disabled level is not constrained (the documented contract returns true for an ignored line)']
    rule = ('Hypothesis draws the enabled level set (any subset of the five levels), 1-8 producers, for each a script of up to 200 lines with generated levels (and yields), and the moment '
            'of stop (after the producers, or after the k-th returned send). Oracle on the file: every required line exactly once; no line at a disabled level; per producer the lines appear '
            'in submission order; the logger sequence numbers are 1..n in file order; every send at an enabled level that returned before stop() was entered returned true; no other line '
            'more than once. Non-trivial: >= 2 producers and >= 100 enabled lines with stop directly behind the last submit or in mid-run.')

    def __init__(self, tier):
        self.tier = tier
        if tier == 'thorough':
            self.examples = 15000
            self.workers = 16

    def make_executor(self):
        return pbt.Executor(timeout=180.0)

    def strategy(self):
        lev = st.sampled_from(list(LEVELS) + ['y'])
        script = st.one_of(st.lists(lev, min_size=1, max_size=20), st.lists(lev, min_size=50, max_size=200)).map(''.join)
        return st.fixed_dictionaries({'levels': st.one_of(st.just('diwef'), st.sets(st.sampled_from(list(LEVELS))).map(lambda s: ''.join(sorted(s)))),
                                      'scripts': st.lists(script, min_size=1, max_size=8), 'stop': st.one_of(st.just(-1), st.just(-2), st.just(-2), st.just(-3), st.integers(0, 10 ** 6)),
                                      # injected schedule, one case in three: 1-2 submits (producer, position) are held inside the queue push - slot claimed, not yet
                                      # published - until stop() has been entered
                                      'holds': st.one_of(st.just([]), st.just([]), st.lists(st.tuples(st.integers(0, 7), st.sampled_from([0, 0, 0, 1, 2, 5, 50, 199])), min_size=1, max_size=2))})

    def run(self, case, ex):
        scripts = list(case['scripts'])
        held = 0
        for p, at in case.get('holds', []):
            if case['stop'] == -1:
                break                   # stop after the producers have been joined: a held submit would only wait for its time limit
            p %= len(scripts)
            at %= len(scripts[p]) + 1
            scripts[p] = scripts[p][:at] + 'h' + scripts[p][at:]
            held += 1
        total = sum(1 for s in scripts for c in s if c not in 'yh')
        if total == 0:
            return {}
        # stop: -1 = after the producer threads have been joined; -2 = the instant the last send has returned (the main thread spins on the counter of returned
        # sends: stop() follows the last submit within a microsecond, while the logger thread still holds a backlog); k = after the k-th returned send
        # -3 = a short-lived logger: no producer threads, the creating thread submits everything right behind the constructor and calls stop() at once
        stop_after = -1 if case['stop'] == -1 else -3 if case['stop'] == -3 else total if case['stop'] == -2 else case['stop'] % (total + 1)
        if stop_after == -3:
            scripts = [s.replace('h', '') or 'i' for s in scripts][:3]
            scripts = [s[:6] for s in scripts]
            held = 0
            total = sum(1 for s in scripts for c in s if c != 'y')
        if held:
            # stop() cannot wait for a send that is itself held until stop() is entered: at most the sends that come before the first hold of their producer are awaited
            free = sum(sum(1 for c in s.split('h')[0] if c != 'y') for s in scripts)
            stop_after = min(stop_after, free)
        def judge(a):
            text = bytes.fromhex(a['file']).decode('latin-1')
            lines = text.split('\n')
            if lines and lines[-1] == '':
                lines.pop()
            desc = 'levels [%s], %d producers with %s lines, stop %s%s' % (case['levels'], len(scripts), [len(s) for s in scripts], 'right behind the constructor, submitted by the creating thread' if stop_after == -3 else 'after the producers' if stop_after < 0 else 'after %d returned sends' % stop_after,
                                                                      '' if not held else ', held submits (h) in scripts %s' % [s if len(s) < 40 else s[:40] + '...' for s in scripts if 'h' in s])

            def fail(msg):
                raise Violation('C28: %s\n case: %s\n file (%d lines): %s' % (msg, desc, len(lines), lines[:12]))
            seen = {}
            order = {}
            for n, ln in enumerate(lines):
                m = LINE_RE.match(ln)
                if not m:
                    fail('malformed line %d: %r' % (n + 1, ln))
                if int(m.group(1)) != n + 1:
                    fail('logger sequence number %s on line %d (numbers must be consecutive from 1)' % (m.group(1), n + 1))
                key = (int(m.group(5)), int(m.group(6)))
                seen[key] = seen.get(key, 0) + 1
                order.setdefault(key[0], []).append(key[1])
                p, k = key
                if p >= len(scripts) or k >= len(scripts[p]) or scripts[p][k] in 'yh':
                    fail('line %r was never submitted' % ln)
                if LEVEL_NAMES[scripts[p][k]] != m.group(3):
                    fail('line %r carries level %r, it was submitted at %r' % (ln, m.group(3), LEVEL_NAMES[scripts[p][k]]))
            enabled_total = required = 0
            for p, s in enumerate(scripts):
                for k, c in enumerate(s):
                    if c in 'yh':
                        continue
                    r, before = a['ret'][p][k]
                    cnt = seen.get((p, k), 0)
                    if c not in case['levels']:
                        if cnt:
                            fail('line P%dL%d at disabled level %s was written' % (p, k, LEVEL_NAMES[c]))
                        continue
                    enabled_total += 1
                    if cnt > 1:
                        fail('line P%dL%d written %d times' % (p, k, cnt))
                    if before:
                        required += 1
                        if cnt != 1:
                            fail('line P%dL%d was submitted (send returned) before stop() was entered and is not in the file after stop() returned' % (p, k))
                        if not r:
                            fail('send() returned false for line P%dL%d, which was accepted and written' % (p, k))
                if order.get(p, []) != sorted(order.get(p, [])):
                    fail('lines of producer %d are out of submission order: %s' % (p, order[p][:30]))
            return {'nontrivial': len(scripts) >= 2 and enabled_total >= 100, 'classes': ['producers:%d' % len(scripts), 'stop:' + ('short_lived_logger' if stop_after == -3 else 'after' if stop_after < 0 else 'during'),
                                                                                           'levels:%d' % len(case['levels'])] + (['held_submit_behind_stop'] if held else []),
                    'key': case, 'sample': {'levels': case['levels'], 'producers': len(scripts), 'lines_per_producer': [len(s) for s in scripts], 'stop_after': stop_after,
                                            'enabled_lines': enabled_total, 'required_lines': required, 'file_head': lines[:5]}}

        info = None
        # a short-lived logger (stop == -3) is created, used and stopped 25 times: whether its own thread has run before stop() is a matter of microseconds
        for _round in range(25 if stop_after == -3 else 1):
            a = ex.call('logrun %s %d %d %s' % (case['levels'] or '-', len(scripts), stop_after, ';'.join(scripts)), timeout=170)
            info = judge(a)
        return info


class C29:
    id = 'C29'
    level = 'exploration'
    build = [('asan', 'fx')]
    workers = 8
    examples = 1500
    CAP = 1024
    assumptions = ['one rotation is the one FileLogger performs when it is constructed on an existing name (optionally followed by an explicit rotate(force)); for the store it is '
                   'FilePersister(rotnum)::initialise(dir, name, purge=true); compression off',
                   'tolerance: the oldest kept generation name.<cap> whose predecessor did not exist may be left as it was or removed (the statement does not say which); every other file is '
                   'fully determined',
                   'pre-existing generation sets hold at most 14 files with numbers around 1, the configured count, and 1024; AddressSanitizer/UBSan watch the rotation for every count 0..1100']
    rule = ('Hypothesis draws the kind (log | file store), the rotation count 0..1100 (biased to 0, 1, 2, 5, 1023, 1024, 1025, 1100), append/force/second-rotation flags, a sparse set of '
            'pre-existing generations name, name.k (store: with their .idx companions) with distinct contents, and unrelated files (name.x, namefoo, name.1.bak, name.0). The directory after '
            'the rotation is compared with a directory model: name.k holds what name.(k-1) held for k <= min(count, 1024), generations above that and unrelated files are untouched, '
            'nothing is invented, an append-mode log without force moves nothing; the executor must finish without a sanitizer report. Non-trivial: count > 1024, or gaps in the '
            'generation set.')

    def __init__(self, tier):
        self.tier = tier
        if tier == 'thorough':
            self.examples = 20000
            self.workers = 16

    def make_executor(self):
        return pbt.Executor(timeout=120.0)

    def strategy(self):
        rot = st.one_of(st.sampled_from([0, 1, 2, 5, 1023, 1024, 1025, 1100]), st.integers(0, 12), st.integers(0, 1100))
        gens = st.lists(st.tuples(st.sampled_from(['1', '2', '3', 'R-1', 'R', 'R+1', 'R+2', '1023', '1024', '1025', '1026']), st.booleans()), max_size=10)
        return st.fixed_dictionaries({'kind': st.sampled_from(['log', 'store']), 'rot': rot, 'append': st.booleans(), 'twice': st.booleans(), 'force': st.booleans(),
                                      'base': st.booleans(), 'gens': gens, 'other': st.sets(st.sampled_from(['name.x', 'namefoo', 'name.1.bak', 'name.0', 'name.idx.1', 'name.01'])).map(sorted)})

    def run(self, case, ex):
        R = case['rot']
        store = case['kind'] == 'store'
        files = {}
        nums = set()
        for g, idx in case['gens']:
            k = {'R-1': R - 1, 'R': R, 'R+1': R + 1, 'R+2': R + 2}.get(g)
            if k is None:
                k = int(g)
            if k >= 1:
                nums.add(k)
                files['name.%d' % k] = 'gen%d' % k
                if store and idx:
                    files['name.%d.idx' % k] = 'idx%d' % k
        if case['base']:
            files['name'] = 'gen0'
            if store:
                files['name.idx'] = 'idx0'
        for o in case['other']:
            files[o] = 'other:' + o
        pre = ';'.join('%s,%s' % (n, hx(c.encode())) for n, c in sorted(files.items())) or '-'
        append = case['append'] and not store
        a = ex.call('logrot %s %d %d %d %d %s' % (case['kind'], R, 1 if append else 0, 1 if case['force'] else 0, 1 if (case['twice'] and not store) else 0, pre))
        got = {n: bytes.fromhex(c).decode('latin-1') for n, c in a['files'].items()}
        desc = '%s, rotation count %d, append %s, second rotation %s (force %s); before: %s' % (case['kind'], R, append, case['twice'] and not store, case['force'], sorted(files))
        if 'exc' in a:
            raise Violation('C29: rotation threw %r\n case: %s' % (a['exc'], desc))
        cap = min(R, self.CAP)
        gaps = False

        def rotate(cur, force):
            """directory model of one rotation; returns (new directory, set of names whose presence is not determined)"""
            nonlocal gaps
            new = dict(cur)
            free = set()
            if R > 0 and (not append or force):
                chains = [('name', lambda k: 'name.%d' % k)]
                if store:
                    chains.append(('name.idx', lambda k: 'name.%d.idx' % k))
                for base, nm in chains:
                    src = lambda k: base if k == 0 else nm(k)
                    for k in range(cap, 0, -1):
                        if src(k - 1) in cur:
                            new[nm(k)] = cur[src(k - 1)]
                        else:
                            if nm(k) in cur:
                                gaps = True
                            if k == cap:
                                if nm(k) in cur:
                                    free.add(nm(k))          # oldest kept generation without a predecessor: left alone or removed
                            else:
                                new.pop(nm(k), None)
                    new.pop(base, None)
            # the new current file
            if append and 'name' in cur and not (R > 0 and force):
                new['name'] = cur['name']
            else:
                new['name'] = ''
            if store:
                new['name.idx'] = ''
            return new, free
        model, free = rotate(files, False)
        if case['twice'] and not store:
            model, free2 = rotate(model, case['force'])
            free |= free2
        for n in sorted(set(model) | set(got)):
            if n in free:
                if n in got and got[n] != files.get(n) and got[n] != model.get(n):
                    raise Violation('C29: %s holds %r after the rotation\n case: %s' % (n, got[n][:40], desc))
                continue
            if n not in got:
                raise Violation('C29: %s is missing after the rotation (it should hold %r)\n case: %s\n after: %s' % (n, model[n][:40], desc, sorted(got)))
            if n not in model:
                raise Violation('C29: %s exists after the rotation although nothing should be there (content %r)\n case: %s\n after: %s' % (n, got[n][:40], desc, sorted(got)))
            if got[n] != model[n]:
                raise Violation('C29: %s holds %r after the rotation, expected %r\n case: %s' % (n, got[n][:40], model[n][:40], desc))
        cls = ['kind:' + case['kind'], 'count>1024' if R > self.CAP else 'count:%s' % ('0' if R == 0 else 'small' if R < 13 else 'large')]
        if gaps: cls.append('gaps')
        if append: cls.append('append')
        return {'nontrivial': R > self.CAP or gaps, 'classes': cls, 'key': case, 'sample': {'case': desc, 'after': sorted(got)}}


CHECKS = {'C28': C28, 'C29': C29}


# ================================================================================================
# C30: the bundled unbounded MPMC queue under generated schedules
# ================================================================================================
class C30:
    id = 'C30'
    level = 'exploration'
    schedule_sampled = True
    build = [('asan', 'fx')]
    workers = 8
    examples = 2000
    # hook point tags (include/fix8/ff/mpmc/MPMCqueues.hpp, FIX8_VERIF_POINT)
    P_READ, P_SEQ, P_RESERVED, P_CASFAIL, P_RETRY, P_STORED, P_PUBLISHED = 1, 2, 3, 4, 5, 6, 7
    C_READ, C_SEQ, C_SEQP, C_EMPTY, C_RESERVED, C_CASFAIL, C_RETRY, C_TAKEN, C_RELEASED = 11, 12, 13, 14, 15, 16, 17, 18, 19
    assumptions = ['controlled schedules: 2-3 producers and 1-2 consumers are real threads serialised by a baton; at every FIX8_VERIF_POINT between the atomic steps of '
                   'uMPMC_Ptr_Queue::push/pop the running thread hands the baton to the thread named by the next element of the generated schedule (a thread that only spins is preempted '
                   'after 50 rounds); interleavings are therefore explored at the granularity of the hook points and under sequential consistency',
                   'free-running runs (no hook installed): 2-16 threads, 2 000-50 000 elements each, schedules sampled by the operating system; oracle there: exactly-once and, per consumer, '
                   'the elements of each producer in increasing order',
                   'the queue is used as fix8 uses it (default 4 sub-queues of 2048 slots, pointers never null)']
    rule = ('Hypothesis draws producer/consumer counts, 1-6 pushes per producer, 1-8 pop attempts per consumer and a schedule vector of up to 400 thread choices. The event log of the hook '
            'points gives every operation its ticket. Oracle: every pushed pointer is popped exactly once (consumers + final drain); the pop holding ticket t returns the element pushed '
            'under ticket t (so elements leave in reservation order and each producer keeps its order); a pop reports empty only if, at its decisive read, the push owning the head '
            'ticket had not yet published. One case in ten is a free-running stress run instead. Non-trivial: a schedule that preempts a push between reservation and publication '
            'while a pop runs.')

    def __init__(self, tier):
        self.tier = tier
        if tier == 'thorough':
            self.examples = 60000
            self.workers = 16

    def make_executor(self):
        return pbt.Executor(timeout=300.0)

    def strategy(self):
        ctl = st.fixed_dictionaries({'kind': st.just('ctl'), 'np': st.integers(2, 3), 'nc': st.integers(1, 2),
                                     'pushes': st.lists(st.integers(1, 6), min_size=3, max_size=3), 'pops': st.lists(st.integers(1, 8), min_size=2, max_size=2),
                                     # the schedule: one thread choice per hook point, or (third form) runs - a thread keeps the baton for 1-60 points, which is how one
                                     # thread gets parked between two of its steps while another completes several whole operations
                                     'sched': st.one_of(st.lists(st.integers(0, 4), max_size=400), st.lists(st.integers(0, 4), min_size=50, max_size=400),
                                                        st.lists(st.tuples(st.integers(0, 4), st.sampled_from([1, 1, 2, 3, 5, 10, 20, 40, 60])), min_size=1, max_size=40).map(
                                                            lambda runs: [t for t, n in runs for _ in range(n)][:400]))})
        stress = st.fixed_dictionaries({'kind': st.just('stress'), 'np': st.integers(1, 8), 'nc': st.integers(1, 8), 'n': st.sampled_from([2000, 5000, 20000, 50000])})
        return st.integers(0, 9).flatmap(lambda i: stress if i == 0 else ctl)      # one case in ten is a free-running run (one_of would drop the repeated objects)

    def run(self, case, ex):
        if case['kind'] == 'stress':
            a = ex.call('ffq stress %d %d %d' % (case['np'], case['nc'], case['n']), timeout=280)
            if not a['ok']:
                raise Violation('C30: free-running run with %d producers x %d elements and %d consumers: %s' % (case['np'], case['n'], case['nc'], a['what']))
            return {'nontrivial': case['np'] >= 2 and case['nc'] >= 2, 'classes': ['stress'], 'key': case, 'sample': {'free_running': case}}
        np_, nc = case['np'], case['nc']
        pushes, pops = case['pushes'][:np_], case['pops'][:nc]
        a = ex.call('ffq ctl %d %d %s %s %s' % (np_, nc, ','.join(map(str, pushes)), ','.join(map(str, pops)), ','.join(map(str, case['sched'])) or '-'))
        ev = a['ev']
        desc = '%d producers pushing %s, %d consumers popping %s times, schedule %s' % (np_, pushes, nc, pops, case['sched'][:60])

        def fail(msg):
            raise Violation('C30: %s\n case: %s\n events (thread,point,value): %s' % (msg, desc, ev[:120]))
        pushed = [(p + 1) * 1000 + k + 1 for p in range(np_) for k in range(pushes[p])]
        got = [e for c, ok, e in a['pops'] if ok] + a['drain']
        if sorted(got) != sorted(pushed):
            lost = sorted(set(pushed) - set(got)); dup = sorted(x for x in set(got) if got.count(x) > 1); alien = sorted(set(got) - set(pushed))
            fail('pushed elements are not popped exactly once: lost %s, duplicated %s, never pushed %s' % (lost, dup, alien))
        # reconstruct tickets from the event log
        pcount = [0] * np_
        ticket_elem = {}            # push ticket -> element
        published_at = {}           # push ticket -> event index of publication
        ccount = [0] * nc
        pop_ticket = {}             # (consumer, attempt) -> ticket
        empties = []                # (event index of decisive read, ticket it looked at, seqP value read)
        attempt_of = [0] * nc
        last_seqp = {}
        preempted = False
        inflight = set()            # producers between reservation and publication
        popping = set()
        for i, (th, tag, val) in enumerate(ev):
            if th < np_:
                if tag == self.P_RESERVED:
                    ticket_elem[val] = (th + 1) * 1000 + pcount[th] + 1
                    pcount[th] += 1
                    inflight.add(th)
                elif tag == self.P_PUBLISHED:
                    published_at[val] = i
                    inflight.discard(th)
            else:
                c = th - np_
                if tag == self.C_READ:
                    popping.add(c)
                    if inflight:
                        preempted = True
                elif tag == self.C_SEQP:
                    last_seqp[c] = (i, val)
                elif tag == self.C_EMPTY:
                    empties.append((last_seqp[c][0], val, last_seqp[c][1]))
                    attempt_of[c] += 1
                    popping.discard(c)
                elif tag == self.C_RESERVED:
                    pop_ticket[(c, attempt_of[c])] = val
                elif tag == self.C_RELEASED:
                    attempt_of[c] += 1
                    popping.discard(c)
        # every pop attempt that came back empty must have taken the empty-queue decision (the read of the head ticket's producer sequence): a pop that gives up
        # anywhere else reports "empty" without having looked
        n_empty_events = [0] * nc
        for th, tag, val in ev:
            if th >= np_ and tag == self.C_EMPTY:
                n_empty_events[th - np_] += 1
        for c in range(nc):
            failed = sum(1 for cc, ok, e in a['pops'] if cc == c and not ok)
            if failed != n_empty_events[c]:
                fail('consumer %d: %d pop attempts reported empty, %d of them decided so on the head ticket\'s producer sequence - a pop gave up elsewhere while elements may be queued' % (
                    c, failed, n_empty_events[c]))
        # successful pops return the element of their own ticket
        per_c = {}
        for c, ok, e in a['pops']:
            k = per_c.get(c, 0)
            per_c[c] = k + 1
            if ok:
                t = pop_ticket.get((c, k))
                if t is None:
                    fail('consumer %d attempt %d succeeded without a reservation event' % (c, k))
                if ticket_elem.get(t) != e:
                    fail('the pop holding ticket %d returned element %s, the push holding ticket %d stored element %s (reservation order broken)' % (t, e, t, ticket_elem.get(t)))
        # the final drain continues in ticket order
        used = sorted(pop_ticket.values())
        nxt = (used[-1] + 1) if used else 0
        for e in a['drain']:
            if ticket_elem.get(nxt) != e:
                fail('drain returned element %s where ticket %d holds %s' % (e, nxt, ticket_elem.get(nxt)))
            nxt += 1
        # empty only if the head push had not published at the decisive read
        for at, ticket, seqp in empties:
            pub = published_at.get(ticket)
            if pub is not None and pub < at:
                fail('pop reported empty at event %d although the push with head ticket %d had published at event %d' % (at, ticket, pub))
        cls = ['ctl', 'producers:%d' % np_, 'consumers:%d' % nc]
        if preempted: cls.append('pop_while_push_in_flight')
        if empties: cls.append('empty_reported')
        return {'nontrivial': preempted, 'classes': cls, 'key': case, 'sample': {'case': desc, 'pops': a['pops'][:12], 'events': len(ev)}}


# ================================================================================================
# C31: Timer events on the virtual clock
# ================================================================================================
class C31:
    id = 'C31'
    no_shrink = True        # a failing timeline is slow to run (the harness waits for a timer thread that does not come round): it is reported as found
    level = 'exploration'
    build = [('asan', 'fx')]
    workers = 8
    examples = 3000
    assumptions = ['the real Timer thread runs on the interposed (virtual) clock: the harness sets the time, then waits until the timer thread has gone round its polling loop three times '
                   'before it looks at what fired; due times, firing instants and intervals are therefore exact and the run does not depend on machine load',
                   'delays 1-200 ms; a delay of 0 is not generated (the timer documents an empty time value as "ignore")',
                   'two events with the same due time may fire in either order']
    rule = ('Hypothesis draws up to 12 events (delay 1-200 ms, repeat flag, a script of callback results) and a script of steps: schedule event i, advance the clock by 0-250 ms '
            '(biased to land exactly on, just before and just after due times), clear, and clear from a second thread while the callback of the next due event is running. A model keeps the pending set: after every advance exactly the events whose due time has been '
            'reached must have fired, in due-time order; none may fire earlier; a repeating event whose callback returned true is due again one interval after the instant it ran, '
            'one that returned false is gone; after clear nothing pending may fire. Non-trivial: >= 2 overlapping repeating events and a clear.')

    def __init__(self, tier):
        self.tier = tier
        if tier == 'thorough':
            self.examples = 150000
            self.workers = 16

    def make_executor(self):
        return pbt.Executor(timeout=300.0)

    def strategy(self):
        evt = st.tuples(st.one_of(st.integers(1, 200), st.sampled_from([1, 2, 10, 50, 100, 200])), st.sampled_from([True, True, False]), st.sampled_from(['', '0', '1', '11', '110', '1111', '111111', '101', '1110']))
        step = st.one_of(st.tuples(st.just('s'), st.integers(0, 11)), st.tuples(st.just('s'), st.integers(0, 11)),
                         st.tuples(st.just('a'), st.one_of(st.integers(0, 250), st.sampled_from(['due', 'due-1', 'due+1']))), st.tuples(st.just('a'), st.sampled_from(['due', 'due-1', 'due+1'])),
                         st.tuples(st.just('c'),), st.tuples(st.just('G'),))
        # origin: where inside a clock second the timeline starts (ms); near the end of a second the due times of pending events straddle the second boundary
        return st.fixed_dictionaries({'events': st.lists(evt, min_size=12, max_size=12), 'steps': st.lists(step, min_size=1, max_size=30),
                                      'origin': st.sampled_from([0, 0, 500, 700, 800, 850, 900, 950, 990, 999])})

    def run(self, case, ex):
        now = 1                     # ms since the origin; the harness probe has consumed the first millisecond
        pending = []                # [due, order, event, repeat, interval]
        results = {}                # event -> remaining results
        order = 0
        toks = []
        expect = []                 # per step: list of sets fired in order groups
        model_fired = []            # (event, time, step)
        nclear = nrepeat_overlap = nconc = 0
        stepno = 0
        for stp in case['steps']:
            stepno += 1
            if stp[0] == 's':
                i = stp[1]
                if any(p[2] == i for p in pending):
                    stepno -= 1
                    continue          # an event object is scheduled once at a time (its result script belongs to that run)
                delay, rep, res = case['events'][i]
                toks.append('s%d,%d,%d,%s' % (i, delay, 1 if rep else 0, res or '0'))
                results[i] = list(res or '0')
                order += 1
                pending.append([now + delay, order, i, rep, delay])
            elif stp[0] == 'a':
                d = stp[1]
                if isinstance(d, str):
                    nxt = min((p[0] for p in pending), default=now + 5)
                    d = max(0, nxt - now + {'due': 0, 'due-1': -1, 'due+1': 1}[d])
                now += d
                toks.append('a%d' % d)
                # fire everything due, in due order; a repeating event that ran is due again at now + interval (it cannot fire twice in one step)
                due = sorted([p for p in pending if p[0] <= now], key=lambda p: (p[0], p[1]))
                for p in due:
                    pending.remove(p)
                for p in due:
                    r = results[p[2]].pop(0) if results[p[2]] else '0'
                    model_fired.append((p[2], now, stepno, p[0]))
                    if r == '1' and p[3]:
                        order += 1
                        pending.append([now + p[4], order, p[2], p[3], p[4]])
                if sum(1 for p in pending if p[3]) >= 2:
                    nrepeat_overlap += 1
            elif stp[0] == 'G' and pending and sum(1 for p in pending if p[0] == min(q[0] for q in pending)) == 1:
                # clear() from a second thread while the callback of the next due event is running (the callback is held by the harness until clear() has been
                # called): the event runs, and whatever it would re-arm is cleared with everything else
                p = min(pending, key=lambda q: q[0])
                d = max(0, p[0] - now)
                now += d
                toks.append('G%d,%d' % (p[2], d))
                if results[p[2]]:
                    results[p[2]].pop(0)
                model_fired.append((p[2], now, stepno, p[0]))
                pending = []
                nclear += 1
                nconc += 1
            else:
                toks.append('c')
                pending = []
                nclear += 1
        if not toks:
            return {}
        if case.get('origin'):
            toks = ['o%d' % case['origin']] + toks
        try:
            a = ex.call('timer %s' % ';'.join(toks), timeout=280)
        except RuntimeError as e:
            if 'harness error' not in str(e):
                raise
            # the executor gave up waiting for the timer: an event that is due (and held by the harness for a concurrent clear) did not fire, or the timer thread
            # stopped coming round its loop - 20 s of real time for something that takes microseconds
            raise Violation('C31: %s\n steps %s' % (str(e)[:400], toks))
        if a.get('error'):
            # the timer thread stopped coming round its loop (20 s of real time for a loop that takes microseconds): due events cannot fire any more
            raise Violation('C31: %s\n steps %s' % (a['error'], toks))
        got = [tuple(x) for x in a['fired']]
        desc = 'steps %s' % toks

        def fail(msg):
            raise Violation('C31: %s\n case: %s\n fired (event, virtual ms, step): %s\n model (event, ms, step, due): %s' % (msg, desc, got[:40], model_fired[:40]))
        # compare step by step; within a step, events with equal due time may fire in either order
        gi = 0
        from itertools import groupby
        for stepk, grp in groupby(model_fired, key=lambda m: m[2]):
            grp = list(grp)
            for due, same in groupby(grp, key=lambda m: m[3]):
                same = list(same)
                chunk = got[gi:gi + len(same)]
                gi += len(same)
                if sorted((e, t, s) for e, t, s in chunk) != sorted((m[0], m[1], m[2]) for m in same):
                    exp = [(m[0], m[1], m[2]) for m in same]
                    early = [c for c in chunk if c not in exp]
                    fail('at step %d the events due at %d ms must fire at %d ms: expected %s, got %s' % (stepk, due, same[0][1], exp, chunk))
        if gi != len(got):
            extra = got[gi:]
            fail('callbacks ran that the model does not allow (before their due time, after clear, or after returning false): %s' % (extra[:10],))
        cls = []
        if nclear: cls.append('clear')
        if nconc: cls.append('clear_during_callback')
        if nrepeat_overlap: cls.append('overlapping_repeats')
        return {'nontrivial': bool(nclear and nrepeat_overlap), 'classes': cls, 'key': case, 'sample': {'steps': toks, 'fired': got[:20]}}


CHECKS.update({'C30': C30, 'C31': C31})
