"""Session-level checks over the real Session + Connection running on an in-memory socket (harness/cpp/fx_sess.cpp):
C15 reader framing."""
import pbt, fixref, sessref
from sessref import Sess, Msg, frame, inbound, ts, hx, SOH
from pbt import Violation
from hypothesis import strategies as st

T0 = 1700000000          # virtual clock origin of every case (2023-11-14 22:13:20 UTC)


def executor():
    return pbt.Executor(timeout=120.0)


def sized_news(begin, sender, target, seq, sending, body_len):
    """a News message (35=B) whose BodyLength is exactly body_len (>= minimum), built from LinesOfText entries of <= 2047 chars"""
    fixed = [(35, 'B'), (49, sender), (56, target), (34, seq), (52, sending), (148, 'h')]
    base = sum(len('%s=%s\x01' % t) for t in fixed)
    room = body_len - base
    # 33=<k>| + k * (58=...|)
    for k in range(1, 6):
        over = len('33=%d\x01' % k) + k * len('58=\x01')
        fill = room - over
        if fill >= k and fill <= k * 2047:
            lens = [fill // k + (1 if i < fill % k else 0) for i in range(k)]
            toks = fixed + [(33, k)] + [(58, chr(97 + i) * n) for i, n in enumerate(lens)]
            m = frame(begin, toks)
            assert int(Msg(m).get(9)) == body_len, (Msg(m).get(9), body_len)
            return m
    return None


class C15:
    id = 'C15'
    level = 'exploration'
    build = [('asan', 'fx')]
    workers = 8
    examples = 3000
    assumptions = ['the session on top of the reader is a logged-on initiator and the generated stream is protocol-valid (Logon reply, then consecutive sequence numbers), '
                   'so that the session itself never stops the reader; what the reader hands over is recorded in an override of the virtual Session::process before the '
                   'real processing runs',
                   'coroutine model: the harness calls Connection::reader_execute() while bytes are pending and stops at the first negative return (the error report of that model); pipelined model: a reader thread queues, a second thread hands over (after a corruption any prefix of the valid messages is accepted there); '
                   'threaded model: the reader thread runs freely on a blocking in-memory socket and the harness waits until it has drained the bytes or terminated',
                   'every generated stream ends on a message boundary (a stream that stops mid-message is a dropped connection, not a corrupted preamble)',
                   'corruptions are exactly the listed ones: BeginString (other version / case / one character off), first field not "8=", BodyLength non-numeric (first or later '
                   'character), empty, zero, above the 8172 limit, 10-20 digits (incl. values that wrap modulo 2^32 into the legal range); a BodyLength that is numeric, in range '
                   'and merely wrong is not in the statement and not generated']
    rule = ('Hypothesis draws the FIX version (FIX42UTEST | FIX44), 1-12 messages (Logon reply, heartbeats, orders with 0-2047 byte text, News messages sized to chosen BodyLengths '
            'incl. the 8172 limit and 1/10/100/1000), a chunk schedule (all-ones, small, large, boundaries inside "8=..|9=", inside BodyLength and inside the checksum) and optionally one '
            'preamble corruption after k good messages followed by more valid messages. Oracle: valid stream -> the strings handed to Session::process are exactly the sent messages, '
            'byte-identical and in order, for every chunking; corrupted -> exactly the k good messages are handed over, nothing after, and the reader reported an error '
            '(negative return / session terminated). ASan/UBSan on. Non-trivial: >= 3 messages and a chunk boundary strictly inside a message preamble, or a corruption.')

    def __init__(self, tier):
        self.tier = tier
        if tier == 'thorough':
            self.examples = 100000
            self.workers = 16

    def make_executor(self):
        return executor()

    def strategy(self):
        msg = st.one_of(
            st.tuples(st.just('hb')),
            st.tuples(st.just('nos'), st.integers(0, 2047)),
            st.tuples(st.just('nos'), st.integers(0, 60)),
            st.tuples(st.just('news'), st.one_of(st.sampled_from([8172, 8171, 8000, 4096, 1000, 999, 1001, 100, 101, 99]), st.integers(80, 8172))),
        )
        chunks = st.one_of(
            st.just('ones'),
            st.lists(st.integers(1, 8), min_size=1, max_size=400),
            st.lists(st.integers(1, 40), min_size=1, max_size=200),
            st.lists(st.one_of(st.integers(1, 30), st.integers(1, 9000)), min_size=0, max_size=40),
            st.tuples(st.just('edges'), st.lists(st.integers(-3, 24), min_size=1, max_size=24)),
        )
        corr = st.one_of(st.none(), st.none(), st.tuples(
            st.sampled_from(['begin_other', 'begin_case', 'begin_char', 'begin_longer', 'begin_shorter', 'first_tag', 'first_tag88', 'first_noeq', 'bl_alpha_first', 'bl_alpha_later', 'bl_empty', 'bl_zero', 'bl_zeros',
                             'bl_over', 'bl_over_big', 'bl_wrap', 'bl_20digits', 'bl_minus', 'bl_space']),
            st.integers(0, 11), st.integers(0, 2), st.integers(0, 1 << 30)))
        return st.fixed_dictionaries({'schema': st.sampled_from(['UTEST', 'F44']), 'msgs': st.lists(msg, min_size=0, max_size=11), 'chunks': chunks, 'corr': corr,
                                      'pm': st.sampled_from(['coro', 'coro', 'coro', 'thread'])})

    def corrupt(self, begin, raw, kind, r):
        m = Msg(raw)
        body = raw[raw.index(SOH, raw.index('\x019=') + 1) + 1:]      # everything after the BodyLength field
        n = m.get(9)
        other = 'FIX.4.4' if begin == 'FIX.4.2' else 'FIX.4.2'
        bl = {'bl_alpha_first': 'x' + n[1:] if len(n) > 1 else 'x', 'bl_alpha_later': n[0] + 'x' + n[1:], 'bl_empty': '', 'bl_zero': '0', 'bl_zeros': '000',
              'bl_over': str(8173 + r % 1800), 'bl_over_big': str(10000 + r % 4000000), 'bl_wrap': str((1 << 32) + int(n)), 'bl_20digits': '1' * 20,
              'bl_minus': '-' + n, 'bl_space': ' ' + n}
        if kind in bl:
            return '8=%s\x019=%s\x01' % (begin, bl[kind]) + body
        if kind == 'begin_other': return '8=%s\x019=%s\x01' % (other, n) + body
        if kind == 'begin_case': return '8=%s\x019=%s\x01' % (begin.lower(), n) + body
        if kind == 'begin_longer': return '8=%s\x019=%s\x01' % (begin + ['0', 'x', ' ', '.1', 'SP2', '\x00'][r % 6], n) + body      # the session's version is a proper prefix
        if kind == 'begin_shorter': return '8=%s\x019=%s\x01' % (begin[:len(begin) - 1 - r % 3], n) + body
        if kind == 'begin_char':
            i = r % len(begin)
            b2 = begin[:i] + ('X' if begin[i] != 'X' else 'Y') + begin[i + 1:]
            return '8=%s\x019=%s\x01' % (b2, n) + body
        if kind == 'first_tag': return '%d=%s\x019=%s\x01' % ([9, 7, 35, 0][r % 4], begin, n) + body
        if kind == 'first_tag88': return '8%d=%s\x019=%s\x01' % (r % 10, begin, n) + body
        if kind == 'first_noeq': return '8%s\x019=%s\x01' % (begin, n) + body
        if kind == 'bl_tag90': return '8=%s\x019%d=%s\x01' % (begin, r % 10, n) + body
        raise ValueError(kind)

    def run(self, case, ex):
        schema = case['schema']
        begin = sessref.BEGIN[schema]
        sessref.wipe(ex)
        sessref.set_clock(ex, T0)
        now = ts(T0)
        good = [inbound(begin, 'A', 'SRV', 'CLI', 1, now, [(98, 0), (108, 30)])]
        seq = 2
        for m in case['msgs']:
            if m[0] == 'hb':
                good.append(inbound(begin, '0', 'SRV', 'CLI', seq, now))
            elif m[0] == 'nos':
                good.append(inbound(begin, 'D', 'SRV', 'CLI', seq, now, sessref.nos_toks('o%d' % seq, now) + ([(58, 't' * m[1])] if m[1] else [])))
            else:
                raw = sized_news(begin, 'SRV', 'CLI', seq, now, m[1])
                if raw is None:
                    continue
                good.append(raw)
            seq += 1
        corr = case['corr']
        stream_msgs = list(good)
        k = None
        if corr:
            kind, k, ntrail, r = corr
            k = min(k, len(good))
            # the corrupted message is a copy of a good one (the next in sequence), followed by ntrail further valid messages
            victim = inbound(begin, '0', 'SRV', 'CLI', k + 1, now) if k >= len(good) else good[k]
            bad = self.corrupt(begin, victim, kind, r)
            trail = [inbound(begin, '0', 'SRV', 'CLI', k + 2 + i, now) for i in range(ntrail)]
            stream_msgs = good[:k] + [bad] + trail
        data = ''.join(stream_msgs)
        # chunk schedule
        ch = case['chunks']
        starts = []
        off = 0
        for m in stream_msgs:
            starts.append(off)
            off += len(m)
        if ch == 'ones':
            chunks = [1] * len(data)
        elif isinstance(ch, (list, tuple)) and len(ch) == 2 and ch[0] == 'edges':
            cuts = sorted({s + d for s, d in zip(starts * 3, ch[1] * 3) if 0 < s + d < len(data)} | {e - 4 for e in starts[1:] if e - 4 > 0})
            chunks = [b - a for a, b in zip([0] + cuts, cuts)]
        else:
            chunks = list(ch)
        # boundaries strictly inside a preamble (first 16 bytes of a message, not its first byte)?
        cut = 0
        cutset = set()
        for c in chunks:
            cut += c
            cutset.add(cut)
        inside = any(any(s < c < s + 16 for c in cutset) for s in starts)
        S = Sess(ex, schema)
        S.new('i', 'CLI', 'SRV', 30, 'none', '-', 0, 0, pm=case['pm'])
        o = S.feed(data, chunks, expect=len(good) if corr is None else k)
        fin = S.delete()
        o.proc += fin.proc
        want = good if corr is None else good[:k]
        if corr is not None and case['pm'] == 'pipe' and o.proc == good[:len(o.proc)] and len(o.proc) <= k:
            # pipelined model: the reader queues messages for a second thread; when the corruption ends the session, valid messages still queued are dropped with it.
            # The statement demands that nothing corrupted is handed on and that the reader stops - any prefix of the valid messages satisfies it
            want = o.proc
        desc = '%s %s, %d messages, chunks %s%s' % (schema, case['pm'], len(stream_msgs), str(chunks[:20]) + ('...' if len(chunks) > 20 else ''),
                                                   '' if corr is None else ', corruption %s after %d good messages: %r' % (corr[0], k, stream_msgs[k][:40]))
        if o.proc != want:
            for i, (g, w) in enumerate(zip(o.proc, want)):
                if g != w:
                    raise Violation('C15: message #%d handed to the session differs from the one sent\n sent  : %r\n handed: %r\n case: %s' % (i, w[:200], g[:200], desc))
            if len(o.proc) > len(want):
                raise Violation('C15: the reader handed over %d strings, only %d valid messages precede the corruption / were sent; extra: %r\n case: %s' % (
                    len(o.proc), len(want), o.proc[len(want)][:200], desc))
            raise Violation('C15: the reader handed over %d of %d valid messages (state %s, reader return %s)\n case: %s' % (
                len(o.proc), len(want), sessref.STATE_NAMES[o.st], o.d.get('rxret'), desc))
        if corr is not None:
            stopped = (o.d.get('rxret', 0) < 0) or o.st == sessref.ST_TERMINATED or o.shut
            if not stopped:
                raise Violation('C15: corrupted preamble did not stop the reader with an error (return %s, state %s)\n case: %s' % (o.d.get('rxret'), sessref.STATE_NAMES[o.st], desc))
        cls = ['schema:' + schema, 'pm:' + case['pm'], 'corr:' + (corr[0] if corr else 'none')]
        if ch == 'ones': cls.append('chunks:ones')
        if any(len(m) > 8000 for m in good): cls.append('near_limit_message')
        return {'nontrivial': (len(stream_msgs) >= 3 and inside) or corr is not None, 'classes': cls,
                'key': [schema, [len(m) for m in stream_msgs], chunks[:64], corr[0] if corr else None],
                'sample': {'schema': schema, 'model': case['pm'], 'message_sizes': [len(m) for m in stream_msgs], 'chunks': chunks[:30], 'corruption': corr[0] if corr else None}}


CHECKS = {'C15': C15}


# ================================================================================================
# C16 / C17: outbound numbering, control record, stored copies - histories over a logged-on session
# ================================================================================================
class Peer:
    """bookkeeping of the conformant counterparty that feeds the session under test: its own outbound numbering"""

    def __init__(self, begin, me, them):
        self.begin, self.me, self.them = begin, me, them

    def msg(self, mtype, seq, now, extra=(), **kw):
        return inbound(self.begin, mtype, self.me, self.them, seq, now, extra, **kw)


def st_payload():
    """content of a length-prefixed data field of an application message: any byte values (NUL, SOH, '=' over-represented)"""
    frag = st.sampled_from([b'\x00', b'\x01', b'=', b'\x0110=000\x01', b'a\x00b', b'\xff\xfe', b'text'])
    return st.lists(st.one_of(frag, st.binary(min_size=0, max_size=4)), min_size=1, max_size=5).map(b''.join).filter(lambda b: len(b) > 0).map(lambda b: b.hex())


def st_preset():
    """a message handed to send() that already carries MsgSeqNum n (a message object sent before, or a decoded one that is forwarded), with or without PossDupFlag / SendingTime"""
    return st.tuples(st.integers(1, 40), st.booleans(), st.booleans())


ADMIN_MSGTYPES = ('0', '1', '2', '3', '4', '5', 'A')
_hist_schemas = {}


def hist_schema(name):
    """schema model (read from the compiled trait tables) for generated application messages"""
    if name not in _hist_schemas:
        ex = executor()
        _hist_schemas[name] = fixref.load_schema(ex, name)
        ex.close()
    return _hist_schemas[name]


def st_app_message(name):
    """any application message of the schema: every mandatory field, random optional ones (optional header fields such as PossResend, OnBehalfOfCompID, SecureData included),
    groups, data fields - C01's message generator; the header fields a session manages itself are dropped when it is handed to send()"""
    sch = hist_schema(name)
    return fixref.st_message(sch, mtypes=[t for t in sch.types() if t not in ADMIN_MSGTYPES], unpaired_length=False, max_elems=2)


def st_history():
    def per_schema(name):
        op = st.one_of(
            st.tuples(st.just('send')), st.tuples(st.just('send')),
            st.tuples(st.just('send_data'), st_payload()),
            st.tuples(st.just('batch'), st.integers(2, 6)),
            st.tuples(st.just('batch_data'), st.lists(st.one_of(st.none(), st_payload()), min_size=2, max_size=5)),
            st.tuples(st.just('in_app')),
            st.tuples(st.just('in_testreq')),
            st.tuples(st.just('in_hb')),
            st.tuples(st.just('in_bad'), st.sampled_from(['unknown_tag', 'missing_mandatory', 'bad_value'])),
            st.tuples(st.just('tick')),
            st.tuples(st.just('in_resend'), st.integers(1, 12), st.integers(0, 12)),
            st.tuples(st.just('restart')),
            st.tuples(st.just('restart_cfg'), st.one_of(st.none(), st.integers(0, 5)), st.one_of(st.none(), st.integers(0, 5))),
            st.tuples(st.just('send_preset'), st_preset()),
            st.tuples(st.just('batch_preset'), st.lists(st.one_of(st.none(), st_preset()), min_size=2, max_size=5)),
            st.tuples(st.just('send_fail')),
            st.tuples(st.just('send_rich'), st_app_message(name)),
            st.tuples(st.just('batch_rich'), st.lists(st_app_message(name), min_size=2, max_size=4)),
        )
        return st.fixed_dictionaries({
            'always': st.sampled_from([False, False, True]),
            'schema': st.just(name),
            'role': st.sampled_from(['i', 'a']),
            'persist': st.sampled_from(['mem', 'file', 'file']),
            'start': st.one_of(st.just((0, 0)), st.just((0, 0)), st.tuples(st.integers(1, 300), st.integers(1, 300)), st.tuples(st.integers(2, 50), st.just(0)), st.tuples(st.just(0), st.integers(2, 50))),
            'prepop': st.one_of(st.none(), st.none(), st.tuples(st.integers(1, 500), st.integers(1, 500))),
            'wmax': st.sampled_from([0, 0, 0, 1, 7, 100]),
            'ops': st.lists(op, min_size=1, max_size=25),
        })
    return st.sampled_from(['UTEST', 'F44']).flatmap(per_schema)


class SeqHistory:
    """runs one generated history and returns everything the two oracles need"""
    level = 'exploration'
    build = [('asan', 'fx')]
    workers = 8
    examples = 2000
    hb = 30

    def __init__(self, tier):
        self.tier = tier
        if tier == 'thorough':
            self.examples = 20000
            self.workers = 16

    def make_executor(self):
        return executor()

    def strategy(self):
        return st_history()

    # --- the history interpreter ------------------------------------------------------------------
    def run(self, case, ex):
        schema = case['schema']
        begin = sessref.BEGIN[schema]
        initiator = case['role'] == 'i'
        me, them = ('CLI', 'SRV') if initiator else ('SRV', 'CLI')
        peer = Peer(begin, them, me)
        sessref.wipe(ex)
        clock = [T0]
        sessref.set_clock(ex, T0)
        S = Sess(ex, schema, data_tags=fixref.data_tags_of(hist_schema(schema)))
        pname = '%s:h' % case['persist']
        always = case.get('always', False)
        flags = ','.join((['wmax=%d' % case['wmax']] if case['wmax'] else []) + (['always'] if always else [])) or '-'
        ns, nr = 1, 1                      # model: next send, next expected receive
        if case['prepop']:
            # a store left behind by an earlier run: created through a first session lifetime with configured numbers
            ps, pr = case['prepop']
            S.new(case['role'], me, them, self.hb, pname, flags, ps, pr)
            if initiator:
                ns, nr = ps + 1, pr       # its Logon took number ps
                o = S.feed(peer.msg('A', nr, ts(T0), [(98, 0), (108, self.hb)]))
                nr += 1
            else:
                o = S.feed(peer.msg('A', pr, ts(T0), [(98, 0), (108, self.hb)]))
                ns, nr = ps + 1, pr + 1
            S.delete()
        wire = []                          # every outbound message of the lifetimes under observation, in order
        new_msgs = []                      # (seq, Msg) of new (not retransmitted, not SequenceReset) messages
        trace = []
        state = {'ns': ns, 'nr': nr, 'first': True}
        cfg = case['start']
        if case['prepop']:
            # explicit start numbers on a store that already holds numbers: each given number overrides its own counter, the other one is recovered
            # (given numbers never go back below the recovered ones: reusing numbers is a configuration matter, not the session's)
            cfg = (ns + cfg[0] % 7 if cfg[0] else 0, nr + cfg[1] % 7 if cfg[1] else 0)
            if bool(cfg[0]) != bool(cfg[1]): cls_pre = 'one_sided_start_on_recovered_store'
            else: cls_pre = None
        else:
            cls_pre = None
        stored_expect = {}
        cls = set()
        if cls_pre: cls.add(cls_pre)

        def absorb(o, what):
            """classify the outbound messages of one step and run the per-step oracles"""
            for m in o.msgs:
                wire.append(m)
                if m.type == '4':
                    if m.get(123) == 'Y' and m.get(36, '').isdigit() and int(m.get(36)) > state['ns']:
                        state['ns'] = int(m.get(36))       # an announced NewSeqNo moves the numbering on (C18: "continue from the last NewSeqNo announced")
                    continue
                if m.possdup:
                    continue
                self.on_new(m, state, trace, what)
                new_msgs.append(m)
                state['ns'] = (m.seq or 0) + 1
            self.after_step(o, state, trace, what)

        def logon(first_cfg):
            s_cfg, r_cfg = first_cfg
            o = S.new(case['role'], me, them, self.hb, pname, flags, s_cfg, r_cfg)
            if s_cfg: state['ns'] = s_cfg
            if r_cfg: state['nr'] = r_cfg
            if initiator:
                absorb_logon(o)
                o = S.feed(peer.msg('A', state['nr'], ts(clock[0]), [(98, 0), (108, self.hb)]))
                state['nr'] += 1
                absorb(o, 'logon reply in')
            else:
                o = S.feed(peer.msg('A', state['nr'], ts(clock[0]), [(98, 0), (108, self.hb)]))
                state['nr'] += 1
                absorb(o, 'logon in')
            if o.st != sessref.ST_CONTINUOUS:
                raise Violation('%s: session did not reach continuous state after logon (state %s)\n%s' % (self.id, sessref.STATE_NAMES[o.st], '\n'.join(trace)))

        def absorb_logon(o):
            for m in o.msgs:
                wire.append(m)
                self.on_new(m, state, trace, 'logon out')
                new_msgs.append(m)
                state['ns'] = (m.seq or 0) + 1

        trace.append('%s %s %s persist=%s start=%s prepop=%s wmax=%s%s' % (schema, 'initiator' if initiator else 'acceptor', begin, case['persist'], cfg, case['prepop'], case['wmax'],
                                                                    ' always_seqnum_assign' if always else ''))
        if always: cls.add('always_seqnum_assign')

        def preset(p):
            n, pd, st52 = p
            return sessref.preset_header(n, pd, (clock[0] - 5) * 1000000000 if st52 else None)
        logon(cfg)
        oid = [0]
        nbatch = nrestart = nadmin_between = 0
        last_was_app = False
        for op in case['ops']:
            k = op[0]
            now = ts(clock[0])
            if k == 'send':
                oid[0] += 1
                trace.append('send app o%d' % oid[0])
                absorb(S.send(sessref.nos_spec('o%d' % oid[0])), 'send')
            elif k == 'send_data':
                oid[0] += 1
                trace.append('send app o%d with EncodedText %s' % (oid[0], op[1]))
                absorb(S.send(sessref.nos_spec('o%d' % oid[0], data=bytes.fromhex(op[1]))), 'send')
                cls.add('data_field')
            elif k == 'batch_data':
                specs = []
                for d in op[1]:
                    oid[0] += 1
                    specs.append(sessref.nos_spec('o%d' % oid[0], data=None if d is None else bytes.fromhex(d)))
                trace.append('send_batch of %d, EncodedText %s' % (len(specs), op[1]))
                absorb(S.batch(specs), 'batch')
                cls.update(['batch', 'data_field'])
            elif k == 'batch':
                ids = []
                for _ in range(op[1]):
                    oid[0] += 1
                    ids.append('o%d' % oid[0])
                trace.append('send_batch %s' % ids)
                nbatch += 1
                absorb(S.batch([sessref.nos_spec(i) for i in ids]), 'batch')
                cls.add('batch')
            elif k == 'send_fail':
                # a transmit failure (the socket write fails once): nothing reaches the wire, the number is not used and nothing is stored under it; the session goes on
                if case['wmax']:
                    continue
                oid[0] += 1
                S.failnext(1)
                o = S.send(sessref.nos_spec('o%d' % oid[0]))
                trace.append('send app o%d while the socket write fails -> out %s' % (oid[0], [(m.type, m.seq) for m in o.msgs]))
                if o.msgs:
                    raise Violation('%s: bytes reached the wire although the socket write failed\n history:\n  %s' % (self.id, '\n  '.join(trace)))
                S.failnext(0)
                absorb(o, 'failed send')
                cls.add('transmit_failure')
            elif k == 'send_rich':
                trace.append('send generated app message 35=%s (%d header, %d body items: header tags %s)' % (op[1]['type'], len(op[1]['h']), len(op[1]['b']),
                                                                                                              sorted(it['t'] for it in op[1]['h'] if it['t'] not in sessref.SESSION_MANAGED)))
                absorb(S.send(sessref.app_spec(op[1])), 'send')
                cls.add('generated_message')
                if any(it['t'] not in sessref.SESSION_MANAGED for it in op[1]['h']): cls.add('optional_header_fields')
            elif k == 'batch_rich':
                trace.append('send_batch of generated app messages 35=%s' % [sp['type'] for sp in op[1]])
                absorb(S.batch([sessref.app_spec(sp) for sp in op[1]]), 'batch')
                cls.update(['batch', 'generated_message'])
            elif k == 'send_preset':
                oid[0] += 1
                trace.append('send app o%d that already carries MsgSeqNum=%d%s%s' % (oid[0], op[1][0], ' PossDupFlag=Y' if op[1][1] else '', ' SendingTime' if op[1][2] else ''))
                absorb(S.send(sessref.nos_spec('o%d' % oid[0], header=preset(op[1]))), 'send')
                cls.add('preset_seqnum')
            elif k == 'batch_preset':
                specs, desc = [], []
                for p in op[1]:
                    oid[0] += 1
                    specs.append(sessref.nos_spec('o%d' % oid[0], header='' if p is None else preset(p)))
                    desc.append('o%d' % oid[0] if p is None else 'o%d(34=%d%s)' % (oid[0], p[0], ',43=Y' if p[1] else ''))
                trace.append('send_batch %s' % ' '.join(desc))
                absorb(S.batch(specs), 'batch')
                cls.update(['batch', 'preset_seqnum'])
            elif k == 'in_app':
                trace.append('inbound app 34=%d' % state['nr'])
                o = S.feed(peer.msg('D', state['nr'], now, sessref.nos_toks('p%d' % state['nr'], now)))
                state['nr'] += 1
                absorb(o, 'in_app')
            elif k == 'in_testreq':
                trace.append('inbound TestRequest 34=%d' % state['nr'])
                o = S.feed(peer.msg('1', state['nr'], now, [(112, 'T%d' % state['nr'])]))
                state['nr'] += 1
                absorb(o, 'in_testreq')
                cls.add('admin_reply')
            elif k == 'in_hb':
                trace.append('inbound Heartbeat 34=%d' % state['nr'])
                o = S.feed(peer.msg('0', state['nr'], now))
                state['nr'] += 1
                absorb(o, 'in_hb')
            elif k == 'in_bad':
                trace.append('inbound undecodable (%s) 34=%d' % (op[1], state['nr']))
                toks = sessref.nos_toks('x', now)
                if op[1] == 'unknown_tag': toks = toks + [(20999, 'zz')]
                elif op[1] == 'missing_mandatory': toks = [t for t in toks if t[0] != 54]
                else: toks = [(t[0], 'notatime') if t[0] == 60 else t for t in toks]
                o = S.feed(peer.msg('D', state['nr'], now, toks))
                state['nr'] += 1
                absorb(o, 'in_bad')
                cls.add('reject')
            elif k == 'tick':
                clock[0] += self.hb
                sessref.set_clock(ex, clock[0])
                now = ts(clock[0])
                trace.append('clock +%ds, inbound Heartbeat 34=%d, supervision tick' % (self.hb, state['nr']))
                o = S.feed(peer.msg('0', state['nr'], now))
                state['nr'] += 1
                absorb(o, 'in_hb')
                absorb(S.tick(), 'tick')
                cls.add('tick')
            elif k == 'in_resend' and always:
                continue       # always_seqnum_assign renumbers whatever is sent, stored copies included: replay under that option is not part of these histories
            elif k == 'in_resend':
                b, e = op[1], op[2]
                if e and e < b:
                    b, e = e, b
                trace.append('inbound ResendRequest 34=%d 7=%d 16=%d' % (state['nr'], b, e))
                o = S.feed(peer.msg('2', state['nr'], now, [(7, b), (16, e)]))
                state['nr'] += 1
                absorb(o, 'in_resend')
                cls.add('resend')
            elif k in ('restart', 'restart_cfg'):
                rc = (0, 0)
                if k == 'restart_cfg':
                    # restart with explicit start numbers (at or above the current ones), one of them possibly left to recovery
                    rc = (0 if op[1] is None else state['ns'] + op[1], 0 if op[2] is None else state['nr'] + op[2])
                    if bool(rc[0]) != bool(rc[1]): cls.add('one_sided_start_on_recovered_store')
                trace.append('restart (new Session/Connection on the same store)%s' % ('' if rc == (0, 0) else ' with start numbers send=%s receive=%s (0 = recovered)' % rc))
                self.before_restart(S, new_msgs, trace)
                S.delete()
                nrestart += 1
                logon(rc)
                cls.add('restart')
        self.at_end(S, new_msgs, trace)
        S.delete()
        seqs = [m.seq for m in new_msgs]
        return {'nontrivial': self.nontrivial(case, cls), 'classes': sorted(cls) + ['role:' + case['role'], 'persist:' + case['persist'], 'schema:' + schema],
                'key': case, 'sample': {'history': trace[:30], 'new_message_numbers': seqs[:60]}}

    def on_new(self, m, state, trace, what): pass
    def after_step(self, o, state, trace, what): pass
    def before_restart(self, S, new_msgs, trace): pass
    def at_end(self, S, new_msgs, trace): pass


class C16(SeqHistory):
    id = 'C16'
    assumptions = ['real Session + ClientConnection/ServerConnection + FIXWriter/FIXReader in the coroutine model over an in-memory socket (short writes of 1..100 bytes in some cases); '
                   'virtual clock; the counterparty is conformant and always in sequence (gaps are C19/C20)',
                   'a message is "new" when it carries neither PossDupFlag=Y nor MsgType 4; a SequenceReset-GapFill that announces NewSeqNo n above the next number moves the '
                   'numbering to n (the behaviour C18 states), so the next new message is expected to carry n - the oracle does not demand more than "one greater than the '
                   'previous such message or the NewSeqNo announced in between"',
                   'the terminal Logout of a session that is shutting down is not followed by further rules (no such rule is generated)',
                   'restart = destroy Session and Connection, build new ones on the same store (FilePersister reopened from its files; the MemoryPersister object is kept)',
                   'with always_seqnum_assign on, no ResendRequest is generated: that option renumbers stored copies as well, so replay under it is outside these histories']
    rule = ('Hypothesis draws role (initiator | acceptor), FIX version, store (memory | file), start numbers (default, configured through start(send,recv), or recovered from a store '
            'left by an earlier lifetime), a short-write size and a history of 1-25 operations: application send, send_batch of 2-6, inbound application message, inbound '
            'TestRequest (answered by Heartbeat), inbound Heartbeat, inbound undecodable message (answered by Reject), clock+tick (Heartbeat), inbound ResendRequest, restart, '
            'and sends / batches of messages that already carry a MsgSeqNum (with or without PossDupFlag and SendingTime: an object sent before, or a decoded message that is '
            'forwarded), under always_seqnum_assign off (they go out as PossDup retransmissions and change nothing) or on (1 in 3 histories: they are new messages and take the next number). '
            'After every step all bytes written to the socket are split into messages by an independent framer; each new message must carry exactly the model next number '
            '(start, start+1, ... across batches, admin replies and restarts, never repeated), and the persisted control record must equal (session next send, next expected '
            'receive) and the model numbers. Non-trivial: history with a batch, an admin reply between application sends, and a restart.')

    def nontrivial(self, case, cls):
        return {'batch', 'restart'} <= cls and bool(cls & {'admin_reply', 'reject', 'tick'})

    def on_new(self, m, state, trace, what):
        if m.seq != state['ns']:
            raise Violation('C16: new outbound message (%s, 35=%s) carries MsgSeqNum %s, expected %d (previous new message + 1 / configured or recovered start)\n message: %s\n history:\n  %s' % (
                what, m.type, m.seq, state['ns'], m.show()[:300], '\n  '.join(trace)))

    def after_step(self, o, state, trace, what):
        if o.nss != state['ns'] or o.nrs != state['nr']:
            raise Violation('C16: after %s the session holds next send %s / next expected receive %s, the protocol model gives %d / %d\n history:\n  %s' % (
                what, o.nss, o.nrs, state['ns'], state['nr'], '\n  '.join(trace)))
        if o.ctrl != [True, state['ns'], state['nr']]:
            raise Violation('C16: after %s the persisted control record is %s, the session numbers are next send %d / next expected receive %d\n history:\n  %s' % (
                what, o.ctrl, state['ns'], state['nr'], '\n  '.join(trace)))


class C17(SeqHistory):
    id = 'C17'
    assumptions = C16.assumptions[:1] + ['stored copies are read back through Persister::get(seqnum) at the end of the history and before every restart (and again after it)',
                                         'numbers consumed by gap-fills or never used are not probed; retransmissions (PossDupFlag=Y) are not new messages']
    rule = ('Same generated histories as C16. Oracle: the socket byte stream is split into messages by an independent framer; for every new application message with number n, '
            'Persister::get(n) must return exactly those bytes (single sends and every member of a batch alike, also after a restart on the same store); for every new '
            'administrative message number (Logon, Heartbeat, Reject, TestRequest ...) get must fail. Non-trivial: a batch of >= 3 and an administrative message between '
            'application sends.')

    def nontrivial(self, case, cls):
        return 'batch' in cls and any(o[0] == 'batch' and o[1] >= 3 for o in case['ops']) and bool(cls & {'admin_reply', 'reject', 'tick'})

    def probe(self, S, new_msgs, trace, when):
        for m in new_msgs:
            r = S.get(m.seq).ret
            if m.is_admin:
                if r['ok']:
                    raise Violation('C17: administrative message 35=%s with MsgSeqNum %d has a stored copy (%s): %r\n history:\n  %s' % (
                        m.type, m.seq, when, sessref.unhx(r['v'])[:200], '\n  '.join(trace)))
            else:
                got = sessref.unhx(r['v']) if r['ok'] else None
                if got != m.raw:
                    raise Violation('C17: stored copy of application message %d differs from the bytes transmitted (%s)\n sent  : %r\n stored: %r\n history:\n  %s' % (
                        m.seq, when, m.raw[:300], got if got is None else got[:300], '\n  '.join(trace)))

    def before_restart(self, S, new_msgs, trace):
        self.probe(S, new_msgs, trace, 'before restart')

    def at_end(self, S, new_msgs, trace):
        self.probe(S, new_msgs, trace, 'at end of history')


CHECKS.update({'C16': C16, 'C17': C17})


# ================================================================================================
# C18: ResendRequest answered with a complete, faithful replay
# ================================================================================================
class C18:
    id = 'C18'
    level = 'exploration'
    build = [('asan', 'fx')]
    workers = 8
    examples = 1600
    assumptions = ['the request range lies inside what the session has sent: 1 <= BeginSeqNo <= last sent number, EndSeqNo = 0 or BeginSeqNo <= EndSeqNo <= last sent number '
                   '(a conformant counterparty detects a gap only from a number it has seen)',
                   'holes in the store are the numbers of administrative messages (Logon, Heartbeat replies), which the session never stores; with no persister every number is a hole',
                   'tolerances, each accepted by the oracle: a gap-fill may extend beyond EndSeqNo over numbers that were not requested; a final gap-fill may cover the next unused number '
                   '(the session then continues from the NewSeqNo it announced); SendingTime of the replay is the time of the replay',
                   'real Session/Connection in the coroutine model over the in-memory socket, virtual clock (advanced between the original sends and the request)']
    rule = ('Hypothesis draws FIX version, role, store (memory | file | none), a sending history of 1-30 numbers each either an application message (stored) or an administrative '
            'reply (hole), and a request [B,E] inside the sent range (E=0 or B<=E). The reply stream is walked with a cursor p:=B: an application message must carry MsgSeqNum p, '
            'PossDupFlag=Y, OrigSendingTime == the SendingTime of the stored original and the original application content, p+=1; a SequenceReset-GapFill must carry MsgSeqNum p and '
            'NewSeqNo n>p with no stored number of the range in [p,n), p:=n; nothing else may be sent; at the end p must be beyond the end of the range; the session must be back in '
            'continuous state; the next new message carries max(last sent+1, p). Non-trivial: range containing >= 2 holes and >= 2 stored messages with EndSeqNo != 0, or a hole '
            'between two stored messages.')

    def __init__(self, tier):
        self.tier = tier
        if tier == 'thorough':
            self.examples = 40000
            self.workers = 16

    def make_executor(self):
        return executor()

    def strategy(self):
        return st.fixed_dictionaries({
            'schema': st.sampled_from(['UTEST', 'F44']),
            'role': st.sampled_from(['i', 'a']),
            'persist': st.sampled_from(['mem', 'file', 'mem', 'file', 'none']),
            'hist': st.one_of(st.lists(st.sampled_from(['app', 'app', 'admin']), min_size=1, max_size=12), st.lists(st.sampled_from(['app', 'app', 'admin']), min_size=3, max_size=30)),
            'b': st.one_of(st.integers(0, 3), st.integers(0, 10 ** 6)), 'e': st.integers(0, 10 ** 6), 'e0': st.sampled_from([False, False, True]),
            'again': st.booleans(),
        })

    def run(self, case, ex):
        schema = case['schema']
        begin = sessref.BEGIN[schema]
        initiator = case['role'] == 'i'
        me, them = ('CLI', 'SRV') if initiator else ('SRV', 'CLI')
        peer = Peer(begin, them, me)
        sessref.wipe(ex)
        clock = T0
        sessref.set_clock(ex, clock)
        S = Sess(ex, schema)
        pname = 'none' if case['persist'] == 'none' else case['persist'] + ':r'
        sent = {}            # number -> Msg (original transmission)
        trace = ['%s %s store=%s' % (schema, 'initiator' if initiator else 'acceptor', case['persist'])]
        nr = 1

        def record(o):
            for m in o.msgs:
                if m.seq in sent:
                    raise Violation('C18: setup: number %d used twice\n%s' % (m.seq, '\n'.join(trace)))
                sent[m.seq] = m

        o = S.new(case['role'], me, them, 30, pname)
        record(o)
        o = S.feed(peer.msg('A', nr, ts(clock), [(98, 0), (108, 30)])); nr += 1
        record(o)
        n = 0
        for k in case['hist']:
            clock += 1
            sessref.set_clock(ex, clock)
            n += 1
            if k == 'app':
                record(S.send(sessref.nos_spec('o%d' % n)))
            else:
                o = S.feed(peer.msg('1', nr, ts(clock), [(112, 'T%d' % n)])); nr += 1
                record(o)
        last = max(sent)
        if sorted(sent) != list(range(1, last + 1)):
            raise Violation('C18: setup: sent numbers are not 1..%d: %s' % (last, sorted(sent)))
        stored = {s for s, m in sent.items() if not m.is_admin} if case['persist'] != 'none' else set()
        trace.append('sent 1..%d, stored %s' % (last, sorted(stored)))
        B = 1 + case['b'] % last
        E = 0 if case['e0'] else B + case['e'] % (last - B + 1)
        result = self.request(ex, S, peer, sent, stored, last, B, E, nr, clock + 100, trace)
        nr += 1
        p = result
        # the next new message
        clock += 200
        sessref.set_clock(ex, clock)
        o = S.send(sessref.nos_spec('after'))
        want = max(last + 1, p)
        new = [m for m in o.msgs]
        if len(new) != 1 or new[0].seq != want or new[0].possdup:
            raise Violation('C18: the new message after the replay carries %s, expected MsgSeqNum %d (last sent %d, replay cursor ended at %d)\n  %s' % (
                [(m.type, m.seq) for m in new], want, last, p, '\n  '.join(trace)))
        if case['again'] and case['persist'] != 'none':
            # a second request (the session must be able to answer again): the whole range sent so far, incl. the message just sent
            sent2 = dict(sent); sent2[want] = new[0]
            stored2 = set(stored) | {want}
            for q in range(last + 1, want):
                pass   # numbers announced away by a gap-fill: never used, not stored
            self.request(ex, S, peer, sent2, stored2, want, 1 + case['e'] % want, 0, nr, clock + 300, trace)
        S.delete()
        inr = [s for s in range(B, (E or last) + 1)]
        holes = [s for s in inr if s not in stored]
        st_in = [s for s in inr if s in stored]
        hole_between = any(s not in stored and any(a in stored for a in inr if a < s) and any(a in stored for a in inr if a > s) for s in inr)
        cls = ['store:' + case['persist'], 'E0' if E == 0 else 'E_given', 'role:' + case['role'], 'schema:' + schema]
        if hole_between: cls.append('hole_between_stored')
        if not st_in: cls.append('nothing_stored_in_range')
        return {'nontrivial': (len(holes) >= 2 and len(st_in) >= 2 and E != 0) or hole_between, 'classes': cls,
                'key': [case['persist'], sorted(stored), last, B, E], 'sample': {'store': case['persist'], 'sent': last, 'stored': sorted(stored), 'request': [B, E]}}

    def request(self, ex, S, peer, sent, stored, last, B, E, nr, clock, trace):
        sessref.set_clock(ex, clock)
        trace.append('ResendRequest 7=%d 16=%d' % (B, E))
        o = S.feed(peer.msg('2', nr, ts(clock), [(7, B), (16, E)]))
        Ee = E if E else last
        p = B
        reply = o.msgs
        shown = ['%s 34=%s%s%s' % (m.type, m.seq, ' 43=Y' if m.possdup else '', ' 36=%s' % m.get(36) if m.type == '4' else '') for m in reply]
        trace.append('reply: ' + ', '.join(shown))

        def fail(msg):
            raise Violation('C18: %s\n  %s' % (msg, '\n  '.join(trace)))
        for m in reply:
            if m.type == '4':
                if m.get(123) != 'Y':
                    fail('SequenceReset without GapFillFlag=Y in a replay')
                n = m.get(36, '')
                if m.seq != p:
                    fail('gap-fill carries MsgSeqNum %s, the first number of the gap is %d' % (m.seq, p))
                if not n.isdigit() or int(n) <= p:
                    fail('gap-fill at %d announces NewSeqNo %s (must be above its own number)' % (p, n))
                n = int(n)
                skipped = [s for s in range(p, n) if s in stored and B <= s <= Ee]
                if skipped:
                    fail('gap-fill %d -> %d skips stored application message(s) %s of the requested range' % (p, n, skipped))
                p = n
            elif m.is_admin:
                fail('unexpected administrative message 35=%s 34=%s in the replay' % (m.type, m.seq))
            else:
                if m.seq != p:
                    if m.seq in stored and m.seq > p:
                        fail('numbers %d..%d have no stored message and were not covered by a gap-fill before message %d was replayed' % (p, m.seq - 1, m.seq))
                    fail('replayed message carries MsgSeqNum %s, expected %d' % (m.seq, p))
                if p not in stored or p > Ee:
                    fail('message %d replayed although it is %s' % (p, 'outside the requested range' if p in stored else 'not a stored application message'))
                orig = sent[p]
                if not m.possdup:
                    fail('replayed message %d lacks PossDupFlag=Y' % p)
                if m.get(122) != orig.get(52):
                    fail('replayed message %d has OrigSendingTime %s, the original SendingTime was %s' % (p, m.get(122), orig.get(52)))
                if m.body_toks() != orig.body_toks() or m.type != orig.type or m.get(49) != orig.get(49) or m.get(56) != orig.get(56):
                    fail('replayed message %d differs from the stored original\n   original: %s\n   replayed: %s' % (p, orig.show(), m.show()))
                p += 1
        if p <= Ee:
            fail('the replay ends at %d: numbers %d..%d of the requested range were neither replayed nor gap-filled' % (p - 1, p, Ee))
        if o.st != sessref.ST_CONTINUOUS:
            fail('session state after the replay is %s' % sessref.STATE_NAMES[o.st])
        return p


CHECKS['C18'] = C18


# ================================================================================================
# C19: inbound messages reach the application only when in sequence
# ================================================================================================
class C19:
    id = 'C19'
    level = 'exploration'
    build = [('asan', 'fx')]
    workers = 8
    examples = 3000
    assumptions = ['the application callback is the one every sample application uses: deliver unless Session::enforce objects (harness/cpp/fx_sess.cpp TSession::handle_application)',
                   'the expected number is the protocol model\'s: it advances by one for every in-sequence message and not for a message above or below it',
                   'implications checked (the statement is "only if" for delivery, so a message that is not delivered never violates the first sentence): '
                   'delivered => number equals expected, or lower with PossDupFlag=Y and OrigSendingTime <= SendingTime, and CompIDs right when enforced, and decodable; '
                   'higher number with no ResendRequest outstanding => not delivered and ResendRequest(BeginSeqNo = expected) sent; lower without PossDupFlag=Y, or wrong CompIDs under '
                   'enforcement => not delivered, a Logout is sent and the session ends; undecodable => not delivered and a Reject referring to it is sent unless the session ends',
                   'states: logon sent (initiator, before the reply), continuous, resend request sent, test request sent; what must happen to a higher number while the session is not yet '
                   'established (logon sent) is not constrained beyond "not delivered"']
    rule = ('Hypothesis draws FIX version, role, CompID enforcement on/off, a session state (reached through real traffic: logon, a higher message, a silent period + tick) and 1-4 inbound '
            'probes: application message numbered expected / lower / higher, PossDupFlag absent|N|Y, OrigSendingTime absent|earlier|equal|later, CompIDs right|swapped|wrong sender|wrong target, '
            'header sub-ID values containing the text "34=<n>" placed before MsgSeqNum (n = expected, lower, higher), corrupt variants (checksum, unknown tag, missing mandatory field). Oracle: the implications listed under assumptions, evaluated against a protocol model of the expected number. Non-trivial: a "34=" look-alike, a PossDup replay '
            'or an out-of-sequence probe.')

    replaying_known = False

    def __init__(self, tier):
        self.tier = tier
        if tier == 'thorough':
            self.examples = 100000
            self.workers = 16

    def make_executor(self):
        return executor()

    def strategy(self):
        probe = st.fixed_dictionaries({
            'rel': st.sampled_from(['eq', 'eq', 'lower', 'lower', 'higher']),
            'delta': st.integers(1, 5),
            'pd': st.sampled_from([None, None, 'N', 'Y', 'Y']),
            'orig': st.sampled_from([None, 'earlier', 'equal', 'later']),
            'comp': st.sampled_from(['ok', 'ok', 'ok', 'ok', 'swapped', 'sender', 'target']),
            'look': st.sampled_from([None, None, None, 'eq', 'lower', 'higher']),
            'looktag': st.sampled_from([50, 57, 115]),
            'corrupt': st.sampled_from([None, None, None, None, 'chk', 'unknown_tag', 'missing']),
        })
        return st.fixed_dictionaries({
            'schema': st.sampled_from(['UTEST', 'F44']), 'role': st.sampled_from(['i', 'a']), 'enforce': st.booleans(),
            'state': st.sampled_from(['continuous', 'continuous', 'resend_sent', 'testreq_sent', 'logon_sent']),
            'warm': st.integers(0, 4),
            'probes': st.lists(probe, min_size=1, max_size=4),
        })

    def run(self, case, ex):
        schema = case['schema']
        begin = sessref.BEGIN[schema]
        initiator = case['role'] == 'i' or case['state'] == 'logon_sent'
        me, them = ('CLI', 'SRV') if initiator else ('SRV', 'CLI')
        peer = Peer(begin, them, me)
        sessref.wipe(ex)
        clock = T0
        sessref.set_clock(ex, clock)
        S = Sess(ex, schema)
        trace = ['%s %s enforce=%s target state %s' % (schema, 'initiator' if initiator else 'acceptor', case['enforce'], case['state'])]
        flags = '-' if case['enforce'] else 'enforce0'
        S.new('i' if initiator else 'a', me, them, 30, 'mem:c19', flags)
        exp = 1                     # model: next expected inbound number
        outstanding = False         # a ResendRequest has been sent and not yet satisfied
        established = False
        if case['state'] != 'logon_sent':
            o = S.feed(peer.msg('A', exp, ts(clock), [(98, 0), (108, 30)])); exp += 1
            established = True
            for i in range(case['warm']):
                o = S.feed(peer.msg('D', exp, ts(clock), sessref.nos_toks('w%d' % i, ts(clock)))); exp += 1
                if len(o.deliv) != 1:
                    raise Violation('C19: setup: in-sequence message %d not delivered\n  %s' % (exp - 1, '\n  '.join(trace)))
            if case['state'] == 'resend_sent':
                o = S.feed(peer.msg('D', exp + 3, ts(clock), sessref.nos_toks('gap', ts(clock))))
                trace.append('setup: inbound app 34=%d while %d expected -> out %s' % (exp + 3, exp, [(m.type, m.get(7)) for m in o.msgs]))
                outstanding = True
                if o.st != sessref.ST_RESEND_REQUEST_SENT:
                    raise Violation('C19: setup: state after a higher message is %s\n  %s' % (sessref.STATE_NAMES[o.st], '\n  '.join(trace)))
            elif case['state'] == 'testreq_sent':
                clock += 40
                sessref.set_clock(ex, clock)
                o = S.tick()
                trace.append('setup: 40 s of silence, tick -> out %s' % [m.type for m in o.msgs])
                if o.st != sessref.ST_TEST_REQUEST_SENT:
                    raise Violation('C19: setup: state after a silent period is %s\n  %s' % (sessref.STATE_NAMES[o.st], '\n  '.join(trace)))
        cls = {'state:' + case['state'], 'enforce:%s' % case['enforce']}
        nontrivial = False
        excluded = []
        for pi, pr in enumerate(case['probes']):
            rel = pr['rel']
            if rel == 'lower' and exp <= 1:
                rel = 'eq'
            seq = exp if rel == 'eq' else (max(1, exp - pr['delta']) if rel == 'lower' else exp + pr['delta'])
            now = ts(clock)
            orig = {None: None, 'earlier': ts(clock - 50), 'equal': now, 'later': ts(clock + 50)}[pr['orig']]
            snd, tgt = {'ok': (them, me), 'swapped': (me, them), 'sender': ('XXX', me), 'target': (them, 'YYY')}[pr['comp']]
            pre = []
            if pr['look']:
                lv = exp if pr['look'] == 'eq' else (max(1, exp - 1) if pr['look'] == 'lower' else exp + 2)
                pre = [(pr['looktag'], 'Z34=%d' % lv)]
            toks = sessref.nos_toks('p%d' % pi, now)
            corrupt = pr['corrupt']
            if corrupt == 'unknown_tag': toks = toks + [(20999, 'zz')]
            elif corrupt == 'missing': toks = [t for t in toks if t[0] != 54]
            elif corrupt == 'badvalue': toks = [(t[0], 'notatime') if t[0] == 60 else t for t in toks]
            raw = inbound(begin, 'D', snd, tgt, seq, now, toks, possdup=pr['pd'], orig=orig, pre_seq=pre)
            if corrupt == 'chk':
                raw = raw[:-4] + '%03d' % ((int(raw[-4:-1]) + 1) % 256) + SOH
            desc = 'probe: app 34=%d (expected %d) 43=%s 122=%s compids=%s lookalike=%s corrupt=%s' % (seq, exp, pr['pd'], pr['orig'], pr['comp'], pre, corrupt)
            trace.append(desc)
            o = S.feed(raw)
            out = o.msgs
            ended = bool(o.shut) or o.st in (sessref.ST_TERMINATED, sessref.ST_LOGOFF_SENT)
            trace.append('  -> delivered %d, out %s, state %s%s' % (len(o.deliv), [(m.type, m.get(7) or m.get(45) or '') for m in out], sessref.STATE_NAMES[o.st], ' (ended)' if ended else ''))

            def fail(msg):
                raise Violation('C19: %s\n  %s' % (msg, '\n  '.join(trace)))
            compbad = pr['comp'] != 'ok' and case['enforce']
            dup_ok = seq < exp and pr['pd'] == 'Y' and pr['orig'] != 'later'
            may_deliver = established and not corrupt and not compbad and (seq == exp or dup_ok)
            if o.deliv and not may_deliver:
                why = ('the message is undecodable' if corrupt else 'CompIDs are wrong and enforced' if compbad else 'the session is not established' if not established else
                       'its MsgSeqNum %d is %s the expected %d%s' % (seq, 'above' if seq > exp else 'below', exp, '' if seq > exp else ' without a valid PossDup resend'))
                fail('message delivered to the application although ' + why)
            if len(o.deliv) > 1:
                fail('one inbound message delivered %d times' % len(o.deliv))
            if established and not corrupt:
                if compbad:
                    if not ended or not any(m.type == '5' for m in out):
                        fail('wrong CompIDs under enforcement must end the session with a Logout (ended=%s, outbound %s)' % (ended, [m.type for m in out]))
                elif seq < exp and pr['pd'] != 'Y':
                    if not ended or not any(m.type == '5' for m in out):
                        fail('a number below the expected one without PossDupFlag=Y must end the session with a Logout (ended=%s, outbound %s)' % (ended, [m.type for m in out]))
                elif seq > exp and not outstanding:
                    rr = [m for m in out if m.type == '2']
                    if not rr or rr[0].get(7) != str(exp):
                        fail('a number above the expected one must trigger a ResendRequest starting at %d (outbound %s)' % (exp, [(m.type, m.get(7)) for m in out]))
                    outstanding = True
            if corrupt and established and not compbad:
                if not ended and not any(m.type == '3' and m.get(45) == str(seq) for m in out):
                    fail('an undecodable message must be answered with a Reject referring to it unless the session ends (outbound %s)' % [(m.type, m.get(45)) for m in out])
            if pr['look'] or pr['pd'] == 'Y' or seq != exp:
                nontrivial = True
            if pr['look']: cls.add('lookalike_34')
            if dup_ok: cls.add('possdup_replay')
            if seq > exp: cls.add('higher')
            if seq < exp: cls.add('lower')
            if corrupt: cls.add('corrupt')
            if compbad: cls.add('compid_enforced_bad')
            if ended:
                break
            # model: only an in-sequence, processed message advances the expected number; a corrupt in-sequence message is consumed too (it is answered by Reject)
            # (CompIDs of an undecodable message cannot be looked at, so it is consumed whatever they are)
            if seq == exp and established and (corrupt or not compbad):
                exp += 1
        S.delete()
        return {'nontrivial': nontrivial, 'classes': sorted(cls), 'excluded': excluded, 'key': case, 'sample': {'trace': trace}}


CHECKS['C19'] = C19


# ================================================================================================
# C22: heartbeat / test request supervision on the virtual clock
# ================================================================================================
class C22:
    id = 'C22'
    level = 'exploration'
    build = [('asan', 'fx')]
    workers = 8
    examples = 1000
    assumptions = ['supervision ticks are calls of the real Session::heartbeat_service() made by the harness at generated instants of the interposed clock (the Timer thread is stopped); '
                   'instants have millisecond resolution',
                   'tolerance for the whole-second arithmetic of the supervisor: a TestRequest (and later the Logout) is demanded only once the silence has reached '
                   'H + floor(H/5) + 1 s; a Logout/termination is an error only while the silence since the TestRequest is still <= 1.2 H; in between both behaviours are accepted. '
                   'A Heartbeat is demanded at a tick exactly when nothing was sent for >= H s. Sending a Heartbeat or TestRequest earlier than required is not treated as a violation',
                   'while a TestRequest is pending the only inbound traffic generated is a Heartbeat (with or without TestReqID): the statement defines the effect of nothing else',
                   'open known finding (Logout at the tick after the TestRequest): timelines in which the implementation agrees with the protocol model except for exactly that early '
                   'Logout - predicted by the model with the known defect switched on - end there and are counted under excluded_by_construction; any other disagreement is a violation']
    rule = ('Hypothesis draws H in 1..120 (biased to 1, 2, 4, 5, 6, 30), role, FIX version and a timeline of 1-40 events: clock advance (0..2H s, biased to H-1, H, H+1 and to the '
            '1.2H boundary +-1 s, plus 0/1/500/999 ms), supervision tick, application send, inbound application message, inbound Heartbeat, inbound TestRequest(id). A model keeps '
            'last-sent / last-received instants and the pending TestRequest; at every tick the outbound messages are compared with what the model demands (Heartbeat, TestRequest, '
            'Logout+termination) and forbids (early Logout); an inbound TestRequest must be answered at once by a Heartbeat with the same TestReqID; an inbound Heartbeat while pending '
            'must return the state to continuous. Non-trivial: a timeline that reaches TestRequest and then either recovery or Logout.')

    replaying_known = False

    def __init__(self, tier):
        self.tier = tier
        if tier == 'thorough':
            self.examples = 30000
            self.workers = 16

    def make_executor(self):
        return executor()

    def strategy(self):
        ev = st.one_of(
            st.tuples(st.just('adv'), st.sampled_from(['0', '1', 'H-1', 'H', 'H+1', 'P-1', 'P', 'P+1', 'P+2', 'rnd', 'rnd']), st.integers(0, 10 ** 6), st.sampled_from([0, 0, 0, 1, 500, 999])),
            st.tuples(st.just('adv'), st.sampled_from(['1', '1', 'H-1', 'P+1']), st.integers(0, 10 ** 6), st.just(0)),
            st.tuples(st.just('tick')), st.tuples(st.just('tick')), st.tuples(st.just('tick')),
            st.tuples(st.just('quiet'), st.integers(1, 300), st.sampled_from([1, 1, 1, 2, 3]), st.sampled_from([0, 0, 250])),   # a silent stretch: tick every step seconds
            st.tuples(st.just('send')),
            st.tuples(st.just('in_app')),
            st.tuples(st.just('in_hb'), st.booleans()),
            st.tuples(st.just('in_testreq'), st.sampled_from(['X', 'TEST', 'id-42', '9'])),
            st.tuples(st.just('in_gap'), st.integers(1, 3)),       # an application message k numbers ahead: ResendRequest goes out; the next inbound event is the peer's gap fill
            st.tuples(st.just('in_gap_testreq'), st.integers(1, 3), st.sampled_from(['G', 'gap-7'])),   # a TestRequest k numbers ahead: ResendRequest AND the Heartbeat with its TestReqID
        )
        return st.fixed_dictionaries({'schema': st.sampled_from(['UTEST', 'F44']), 'role': st.sampled_from(['i', 'a']),
                                      'H': st.one_of(st.sampled_from([1, 2, 4, 5, 6, 30]), st.integers(1, 120)),
                                      'events': st.lists(ev, min_size=1, max_size=40)})

    def run(self, case, ex):
        schema, H = case['schema'], case['H']
        begin = sessref.BEGIN[schema]
        initiator = case['role'] == 'i'
        me, them = ('CLI', 'SRV') if initiator else ('SRV', 'CLI')
        peer = Peer(begin, them, me)
        sessref.wipe(ex)
        now = T0 * 1000                        # model clock in ms
        sessref.set_clock(ex, T0)
        S = Sess(ex, schema)
        S.new(case['role'], me, them, H, 'none')
        nr = 1
        o = S.feed(peer.msg('A', nr, ts(T0), [(98, 0), (108, H)])); nr += 1
        if o.st != sessref.ST_CONTINUOUS:
            raise Violation('C22: setup: logon failed, state %s' % sessref.STATE_NAMES[o.st])
        last_sent = last_recv = now
        pending_since = None
        gap_from = None                         # a ResendRequest of the session is outstanding: first missing number
        P = H + H // 5                          # the supervisor's whole-second period
        trace = ['%s %s H=%d' % (schema, case['role'], H)]
        cls = set()
        excluded = []
        reached_tr = outcome = False

        def fail(msg):
            raise Violation('C22: %s\n  %s' % (msg, '\n  '.join(trace)))

        def clk():
            sessref.set_clock(ex, now // 1000, (now % 1000) * 1000000)
            return ts(now // 1000, now % 1000)
        n = 0
        events = []
        for e in case['events']:
            if e[0] == 'quiet':
                steps = min(e[1], (3 * H) // e[2] + 2, 150)
                for _ in range(steps):
                    events += [('adv', 'abs', e[2], e[3]), ('tick',)]
            else:
                events.append(e)
        for e in events:
            k = e[0]
            n += 1
            if k == 'adv':
                secs = e[2] if e[1] == 'abs' else {'0': 0, '1': 1, 'H-1': H - 1, 'H': H, 'H+1': H + 1, 'P-1': P - 1, 'P': P, 'P+1': P + 1, 'P+2': P + 2, 'rnd': e[2] % (2 * H + 1)}[e[1]]
                now += max(0, secs) * 1000 + e[3]
                trace.append('t=+%.3f s' % ((now - T0 * 1000) / 1000.0))
                clk()
                continue
            t = clk()
            if k == 'tick':
                ds, dr = now - last_sent, now - last_recv
                o = S.tick()
                types = [(m.type, m.get(112)) for m in o.msgs]
                ended = bool(o.shut) or o.st in (sessref.ST_TERMINATED, sessref.ST_LOGOFF_SENT)
                trace.append('tick: silent out %.3f s, in %.3f s%s -> out %s state %s' % (ds / 1000.0, dr / 1000.0, '' if pending_since is None else ', TestRequest pending %.3f s' % ((now - pending_since) / 1000.0),
                                                                                   types, sessref.STATE_NAMES[o.st]))
                if ds >= H * 1000 and not any(m.type == '0' for m in o.msgs):
                    fail('nothing was sent for %.3f s (H=%d) but the tick sent no Heartbeat' % (ds / 1000.0, H))
                if o.msgs:
                    last_sent = now
                logout = any(m.type == '5' for m in o.msgs)
                if pending_since is not None:
                    dp = now - pending_since
                    if dp >= (P + 1) * 1000 and not (logout and ended):
                        fail('TestRequest unanswered for %.3f s (period %d s + 20%%) but no Logout/termination (out %s, state %s)' % (dp / 1000.0, H, types, sessref.STATE_NAMES[o.st]))
                    if (logout or ended) and dp * 10 <= 12 * H * 1000:
                        # open known finding logout-one-tick-after-testrequest, decided with two models: the protocol model forbids this Logout; the model with the
                        # known defect switched on (silence still measured from the last received message) predicts it exactly when that silence exceeds the period.
                        # Agreement with the defective model only -> known class (counted, timeline ends); disagreement with both -> violation.
                        if not self.replaying_known and logout and ended and dr // 1000 > P:
                            excluded.append('early_logout_after_testrequest(known finding)')
                            cls.add('logout_after_testrequest_early(known)'); outcome = True
                            break
                        fail('Logout/termination only %.3f s after the TestRequest: the period of H + 20%% = %.1f s has not elapsed' % (dp / 1000.0, 1.2 * H))
                    if logout or ended:
                        cls.add('logout_after_testrequest'); outcome = True
                        break
                else:
                    tr = [m for m in o.msgs if m.type == '1']
                    if dr >= (P + 1) * 1000 and not tr:
                        fail('nothing received for %.3f s (> H + 20%% = %.1f s) but the tick sent no TestRequest (out %s)' % (dr / 1000.0, 1.2 * H, types))
                    if logout or ended:
                        fail('Logout/termination at a tick without a TestRequest pending (out %s)' % types)
                    if tr:
                        if not tr[0].get(112):
                            fail('TestRequest without TestReqID')
                        pending_since = now
                        reached_tr = True
                        cls.add('testrequest_sent')
                        if gap_from is not None:
                            cls.add('testrequest_while_resend_outstanding')
            elif k == 'send':
                o = S.send(sessref.nos_spec('o%d' % n))
                trace.append('send app -> %s' % [m.type for m in o.msgs])
                last_sent = now
            else:
                if gap_from is not None:
                    # the counterparty answers the outstanding ResendRequest first: one SequenceReset-GapFill over the missing numbers and the message that was ahead
                    o = S.feed(peer.msg('4', gap_from, t, [(123, 'Y'), (36, nr)], possdup='Y', orig=t))
                    trace.append('inbound GapFill %d -> %d -> out %s state %s' % (gap_from, nr, [m.type for m in o.msgs], sessref.STATE_NAMES[o.st]))
                    if o.nrs != nr:
                        fail('after the gap fill %d -> %d the session expects %d' % (gap_from, nr, o.nrs))
                    if o.msgs:
                        last_sent = now
                    last_recv = now
                    gap_from = None
                    cls.add('gap_filled')
                    if k in ('in_gap', 'in_gap_testreq'):
                        continue
                if pending_since is not None and k != 'in_hb':
                    k, e = 'in_hb', ('in_hb', True)
                if k == 'in_gap_testreq':
                    gap_from = nr
                    o = S.feed(peer.msg('1', nr + e[1], t, [(112, e[2])])); nr += e[1] + 1
                    outs = [(m.type, m.get(112), m.get(7)) for m in o.msgs]
                    trace.append('inbound TestRequest %s, %d numbers ahead -> out %s state %s' % (e[2], e[1], outs, sessref.STATE_NAMES[o.st]))
                    if not any(m.type == '2' for m in o.msgs):
                        fail('a TestRequest %d numbers ahead was not answered by a ResendRequest (out %s)' % (e[1], outs))
                    if not any(m.type == '0' and m.get(112) == e[2] for m in o.msgs):
                        fail('inbound TestRequest %r (numbered ahead of the expected message) not answered by a Heartbeat with the same TestReqID (out %s)' % (e[2], outs))
                    cls.update(['resend_outstanding', 'testrequest_answered', 'testrequest_ahead_of_sequence'])
                elif k == 'in_gap':
                    gap_from = nr
                    o = S.feed(peer.msg('D', nr + e[1], t, sessref.nos_toks('g%d' % n, t))); nr += e[1] + 1
                    trace.append('inbound app %d numbers ahead -> out %s state %s' % (e[1], [(m.type, m.get(7), m.get(16)) for m in o.msgs], sessref.STATE_NAMES[o.st]))
                    if not any(m.type == '2' for m in o.msgs):
                        fail('a message %d numbers ahead was not answered by a ResendRequest (out %s)' % (e[1], [m.type for m in o.msgs]))
                    cls.add('resend_outstanding')
                elif k == 'in_app':
                    o = S.feed(peer.msg('D', nr, t, sessref.nos_toks('p%d' % n, t))); nr += 1
                    trace.append('inbound app -> out %s' % [m.type for m in o.msgs])
                elif k == 'in_hb':
                    extra = [(112, 'TEST')] if (e[1] and pending_since is not None) else []
                    o = S.feed(peer.msg('0', nr, t, extra)); nr += 1
                    trace.append('inbound Heartbeat %s -> out %s state %s' % (extra, [m.type for m in o.msgs], sessref.STATE_NAMES[o.st]))
                    if pending_since is not None:
                        if o.st != sessref.ST_CONTINUOUS:
                            fail('inbound Heartbeat while a TestRequest is pending left the state at %s' % sessref.STATE_NAMES[o.st])
                        pending_since = None
                        cls.add('recovered_by_heartbeat'); outcome = True
                else:
                    o = S.feed(peer.msg('1', nr, t, [(112, e[1])])); nr += 1
                    trace.append('inbound TestRequest %s -> out %s' % (e[1], [(m.type, m.get(112)) for m in o.msgs]))
                    if not o.msgs or o.msgs[0].type != '0' or o.msgs[0].get(112) != e[1]:
                        fail('inbound TestRequest %r not answered by a Heartbeat with the same TestReqID (out %s)' % (e[1], [(m.type, m.get(112)) for m in o.msgs]))
                    cls.add('testrequest_answered')
                last_recv = now
                if o.msgs:
                    last_sent = now
                if o.shut or o.st == sessref.ST_TERMINATED:
                    fail('session ended on conformant inbound traffic (state %s)' % sessref.STATE_NAMES[o.st])
        S.delete()
        return {'nontrivial': reached_tr and outcome, 'classes': sorted(cls) + ['role:' + case['role']], 'excluded': excluded, 'key': case, 'sample': {'timeline': trace[:40]}}


CHECKS['C22'] = C22


# ================================================================================================
# C23: logon acceptance, CompID identity, SessionID comparison
# ================================================================================================
class C23:
    id = 'C23'
    level = 'exploration'
    build = [('asan', 'fx')]
    workers = 8
    examples = 3000
    assumptions = ['acceptor: a Session constructed with its SenderCompID and started on a ServerConnection (no SessionConfig object: loggers/persister are handed in, as the unit tests do); '
                   'the Logon carries the number the acceptor expects (1 with ResetSeqNumFlag=Y), so that sequence handling (C19/C20) does not interfere',
                   'client list entries carry no IP restriction',
                   'both directions are checked where the statement is unambiguous: every stated condition violated => no logon completes and no Logon is sent; all conditions hold => '
                   'state continuous and exactly one Logon echoing HeartBtInt; with enforcement off a foreign TargetCompID is accepted or refused as the implementation likes',
                   'initiator: with enforcement on, a Logon response that does not mirror the session identity must not lead to an established session; with enforcement off nothing is demanded']
    rule = ('Three generated families. (1) Acceptor: own CompID, enforcement on/off, client list absent / containing / lacking the sender, Logon with TargetCompID right/wrong, SenderCompID, '
            'HeartBtInt 1..300, ResetSeqNumFlag absent/N/Y, store with or without earlier numbers. (2) Initiator: Logon response with CompIDs mirrored / both wrong / only sender wrong / '
            'only target wrong, enforcement on/off. (3) SessionID pairs over all equal/unequal combinations of the two CompIDs (and BeginString), built from parts or from the id string: '
            '(a != b) == !(a == b), a == b <=> both CompIDs equal, symmetric, reflexive, copies equal. Non-trivial: exactly one of the two CompIDs differs.')

    def __init__(self, tier):
        self.tier = tier
        if tier == 'thorough':
            self.examples = 50000
            self.workers = 16

    def make_executor(self):
        return executor()

    def strategy(self):
        comp = st.sampled_from(['A', 'B', 'SRV', 'CLI', 'SRV2', 'srv', 'X_1', 'LONGCOMPID_0123456789'])
        acc = st.fixed_dictionaries({'kind': st.just('acc'), 'schema': st.sampled_from(['UTEST', 'F44']), 'enforce': st.booleans(),
                                     'clients': st.sampled_from([None, None, 'has', 'lacks']), 'target_ok': st.sampled_from([True, True, False]),
                                     'sender': st.sampled_from(['CLI', 'CLI', 'OTHER']), 'hb': st.one_of(st.integers(1, 300), st.sampled_from([1, 30, 300])),
                                     'reset': st.sampled_from([None, 'N', 'Y', 'Y']), 'prepop': st.one_of(st.none(), st.tuples(st.integers(2, 400), st.integers(2, 400))),
                                     # start numbers requested through Session::start(.., send, receive), 0 = not requested
                                     'req': st.one_of(st.none(), st.none(), st.tuples(st.sampled_from([0, 5, 7, 50]), st.sampled_from([0, 9, 3, 60])))})
        ini = st.fixed_dictionaries({'kind': st.just('ini'), 'schema': st.sampled_from(['UTEST', 'F44']), 'enforce': st.sampled_from([True, True, False]),
                                     'reply': st.sampled_from(['mirror', 'both', 'sender', 'target'])})
        sid = st.fixed_dictionaries({'kind': st.just('sid'), 's1': comp, 't1': comp, 's2': comp, 't2': comp, 'same_s': st.booleans(), 'same_t': st.booleans(),
                                     'b1': st.sampled_from(['FIX.4.2', 'FIX.4.4']), 'b2': st.sampled_from(['FIX.4.2', 'FIX.4.4']), 'via': st.sampled_from(['ctor', 'string'])})
        return st.one_of(acc, ini, sid, sid)

    def run(self, case, ex):
        return getattr(self, 'run_' + case['kind'])(case, ex)

    def run_sid(self, c, ex):
        s2 = c['s1'] if c['same_s'] else c['s2']
        t2 = c['t1'] if c['same_t'] else c['t2']
        a = ex.call('sid %s %s %s %s %s %s %s' % (hx(c['b1']), hx(c['s1']), hx(c['t1']), hx(c['b2']), hx(s2), hx(t2), c['via']))
        equal = c['s1'] == s2 and c['t1'] == t2
        desc = 'SessionID(%s:%s->%s) vs SessionID(%s:%s->%s) built via %s' % (c['b1'], c['s1'], c['t1'], c['b2'], s2, t2, c['via'])
        if a['eq'] != equal or a['eq_rev'] != equal:
            raise Violation('C23: %s: operator== gives %s/%s, the CompIDs are %s' % (desc, a['eq'], a['eq_rev'], 'equal' if equal else 'not equal'))
        if a['ne'] != (not a['eq']) or a['ne_rev'] != (not a['eq_rev']):
            raise Violation('C23: %s: operator!= gives %s while operator== gives %s' % (desc, a['ne'], a['eq']))
        if not a['self_eq'] or a['self_ne'] or not a['copy_eq'] or a['copy_ne']:
            raise Violation('C23: %s: identity compares unequal to itself or to its copy: %r' % (desc, a))
        one = (c['s1'] == s2) != (c['t1'] == t2)
        return {'nontrivial': one, 'classes': ['sid', 'sid:one_differs' if one else ('sid:equal' if equal else 'sid:both_differ')], 'key': [c['s1'], c['t1'], s2, t2, c['via']],
                'sample': {'kind': 'SessionID comparison', 'a': '%s->%s' % (c['s1'], c['t1']), 'b': '%s->%s' % (s2, t2)}}

    def run_ini(self, c, ex):
        schema = c['schema']; begin = sessref.BEGIN[schema]
        sessref.wipe(ex); sessref.set_clock(ex, T0)
        S = Sess(ex, schema)
        S.new('i', 'CLI', 'SRV', 30, 'none', '-' if c['enforce'] else 'enforce0')
        snd, tgt = {'mirror': ('SRV', 'CLI'), 'both': ('XXX', 'YYY'), 'sender': ('XXX', 'CLI'), 'target': ('SRV', 'YYY')}[c['reply']]
        o = S.feed(inbound(begin, 'A', snd, tgt, 1, ts(T0), [(98, 0), (108, 30)]))
        desc = 'initiator CLI->SRV (enforcement %s) receives Logon 49=%s 56=%s: state %s, shutdown %s' % (c['enforce'], snd, tgt, sessref.STATE_NAMES[o.st], o.shut)
        S.delete()
        if c['reply'] == 'mirror':
            if o.st != sessref.ST_CONTINUOUS:
                raise Violation('C23: a mirrored Logon response did not establish the session: ' + desc)
        elif c['enforce'] and (o.st == sessref.ST_CONTINUOUS or not (o.shut or o.st == sessref.ST_TERMINATED)):
            raise Violation('C23: a Logon response that does not mirror the session identity was not treated as a mismatch: ' + desc)
        return {'nontrivial': c['reply'] in ('sender', 'target'), 'classes': ['ini', 'ini:' + c['reply']], 'key': c, 'sample': {'kind': 'initiator', 'case': desc}}

    def run_acc(self, c, ex):
        schema = c['schema']; begin = sessref.BEGIN[schema]
        sessref.wipe(ex); sessref.set_clock(ex, T0)
        S = Sess(ex, schema)
        flags = [] if c['enforce'] else ['enforce0']
        if c['clients'] == 'has': flags.append('clients=CLI;ZED')
        elif c['clients'] == 'lacks': flags.append('clients=ZED;QQQ')
        flags = ','.join(flags) or '-'
        ns, nr = 1, 1
        if c['prepop']:
            ps, pr = c['prepop']
            S.new('a', 'SRV', 'CLI', 30, 'mem:c23', '-', ps, pr)
            S.feed(inbound(begin, 'A', 'CLI', 'SRV', pr, ts(T0), [(98, 0), (108, 30)]))
            S.delete()
            ns, nr = ps + 1, pr + 1
        req = c.get('req') or (0, 0)
        S.new('a', 'SRV', 'CLI', 30, 'mem:c23', flags, req[0], req[1])
        if req[0]: ns = req[0]
        if req[1]: nr = req[1]
        reset = c['reset'] == 'Y'
        tgt = 'SRV' if c['target_ok'] else 'NOTME'
        extra = [(98, 0), (108, c['hb'])] + ([(141, c['reset'])] if c['reset'] else [])
        seq = 1 if reset else nr
        o = S.feed(inbound(begin, 'A', c['sender'], tgt, seq, ts(T0), extra))
        logons = [m for m in o.msgs if m.type == 'A']
        desc = 'acceptor SRV (enforcement %s, clients %s, store %s, requested start numbers %s) receives Logon 49=%s 56=%s 34=%d 108=%d 141=%s -> state %s, out %s, next send %s / receive %s' % (
            c['enforce'], c['clients'], c['prepop'], c.get('req'), c['sender'], tgt, seq, c['hb'], c['reset'], sessref.STATE_NAMES[o.st], [(m.type, m.seq, m.get(108)) for m in o.msgs], o.nss, o.nrs)
        S.delete()
        must_refuse = (c['enforce'] and not c['target_ok']) or (c['clients'] is not None and (c['clients'] == 'lacks' or c['sender'] != 'CLI'))
        must_accept = c['target_ok'] and (c['clients'] is None or (c['clients'] == 'has' and c['sender'] == 'CLI'))
        if must_refuse:
            if o.st == sessref.ST_CONTINUOUS or logons:
                raise Violation('C23: logon completed although %s: %s' % ('TargetCompID is not the acceptor\'s CompID' if (c['enforce'] and not c['target_ok']) else 'the sender is not in the client list', desc))
        elif must_accept:
            if o.st != sessref.ST_CONTINUOUS or len(logons) != 1:
                raise Violation('C23: a Logon satisfying every condition did not complete: ' + desc)
            lg = logons[0]
            if lg.get(108) != str(c['hb']):
                raise Violation('C23: the Logon response does not echo HeartBtInt %d: %s' % (c['hb'], desc))
            if lg.get(49) != 'SRV' or lg.get(56) != c['sender']:
                raise Violation('C23: the Logon response carries CompIDs %s->%s: %s' % (lg.get(49), lg.get(56), desc))
            if reset:
                if lg.seq != 1 or o.nss != 2 or o.nrs != 2:
                    raise Violation('C23: ResetSeqNumFlag=Y did not reset both sequence numbers to 1: ' + desc)
            else:
                if lg.seq != ns or o.nss != ns + 1 or o.nrs != nr + 1:
                    raise Violation('C23: logon without reset did not continue from the stored numbers (%d, %d): %s' % (ns, nr, desc))
        cls = ['acc', 'acc:refuse' if must_refuse else 'acc:accept' if must_accept else 'acc:unconstrained']
        if reset: cls.append('acc:reset')
        if reset and any(req): cls.append('acc:reset_with_requested_numbers')
        return {'nontrivial': (not c['target_ok']) != (c['sender'] != 'CLI') or reset, 'classes': cls, 'key': c, 'sample': {'kind': 'acceptor', 'case': desc}}


CHECKS['C23'] = C23


# ================================================================================================
# C20: gaps are recovered with a conformant counterparty
# ================================================================================================
class ConformantPeer:
    """a counterparty that follows the FIX session protocol: own numbering and store of what it sent; answers a ResendRequest by
    replaying application messages (PossDupFlag=Y, OrigSendingTime) and gap-filling administrative ones, then continues normally"""

    def __init__(self, begin, me, them):
        self.begin, self.me, self.them = begin, me, them
        self.pn = 1
        self.sent = {}

    def new(self, mtype, now, extra=(), app_id=None):
        seq = self.pn
        self.pn += 1
        self.sent[seq] = {'type': mtype, 'extra': list(extra), 'time': now, 'id': app_id}
        return seq, inbound(self.begin, mtype, self.me, self.them, seq, now, extra)

    def replay(self, b, e, now, gf_possdup=True):
        """messages answering ResendRequest [b,e] (e=0: to the latest), in order"""
        last = self.pn - 1
        e = last if e == 0 or e > last else e
        out = []
        s = b
        while s <= e:
            m = self.sent[s]
            if m['type'] not in sessref.ADMIN_TYPES:
                out.append(('resend %d' % s, inbound(self.begin, m['type'], self.me, self.them, s, now, m['extra'], possdup='Y', orig=m['time'])))
                s += 1
            else:
                t = s
                while t <= e and self.sent[t]['type'] in sessref.ADMIN_TYPES:
                    t += 1
                out.append(('gapfill %d->%d' % (s, t), inbound(self.begin, '4', self.me, self.them, s, now, [(123, 'Y'), (36, t)], possdup='Y' if gf_possdup else None,
                                                             orig=now if gf_possdup else None)))
                s = t
        return out


class C20:
    id = 'C20'
    level = 'exploration'
    build = [('asan', 'fx')]
    workers = 8
    examples = 1200
    replaying_known = False
    assumptions = ['the counterparty is a Python model of a conformant FIX peer (own numbering and store; replays application messages with PossDupFlag=Y and OrigSendingTime, '
                   'gap-fills administrative messages; its gap-fills carry PossDupFlag=Y or not, both are legal)',
                   'recovery is checked at quiescence of a finite history: after the last operation the counterparty sends one more Heartbeat if anything is still missing, answers the '
                   'ResendRequest, and then the three claims are evaluated',
                   'the counterparty answers a ResendRequest either at once or after one to three further new messages - application or administrative - that it sent before it saw the '
                   'request (every ResendRequest the session emits meanwhile is answered too, in order)']
    rule = ('Hypothesis draws FIX version, role and a history of 1-30 counterparty operations: new application message / Heartbeat / TestRequest, each either delivered or lost '
            '(sent while disconnected: numbered, stored by the counterparty, never received), application sends of the session itself, and reconnects (session restarted on its store). '
            'Whenever the session emits a ResendRequest the model answers it conformantly. Oracle: the session never emits a Logout or terminates; at quiescence every application message the '
            'counterparty sent has been delivered to the application at least once and the session expects exactly the counterparty\'s next number. Non-trivial: a gap of >= 2 messages '
            'recovered by replay, or a gap containing both application and administrative messages.')

    def __init__(self, tier):
        self.tier = tier
        if tier == 'thorough':
            self.examples = 30000
            self.workers = 16

    def make_executor(self):
        return executor()

    def strategy(self):
        early = st.sampled_from([0, 0, 1, 1, 2, 3])
        more = st.lists(st.sampled_from(['app', 'app', 'hb', 'testreq']), min_size=3, max_size=3)
        op = st.one_of(
            st.tuples(st.just('app'), st.booleans(), early, more),
            st.tuples(st.just('app'), st.booleans(), early, more),
            st.tuples(st.just('hb'), st.booleans(), early, more),
            st.tuples(st.just('testreq'), st.booleans(), early, more),
            st.tuples(st.just('own_send')),
            st.tuples(st.just('reconnect')),
        )
        return st.fixed_dictionaries({'schema': st.sampled_from(['UTEST', 'F44']), 'role': st.sampled_from(['i', 'a']), 'gfpd': st.booleans(),
                                      'ops': st.lists(op, min_size=1, max_size=30)})

    def run(self, case, ex):
        schema = case['schema']; begin = sessref.BEGIN[schema]
        initiator = case['role'] == 'i'
        me, them = ('CLI', 'SRV') if initiator else ('SRV', 'CLI')
        peer = ConformantPeer(begin, them, me)
        sessref.wipe(ex)
        clock = [T0]
        sessref.set_clock(ex, T0)
        S = Sess(ex, schema)
        trace = ['%s %s' % (schema, 'initiator' if initiator else 'acceptor')]
        delivered = set()
        excluded = []
        cls = set()
        st_now = [None]
        known = self.replaying_known
        stats = {'gap_max': 0, 'mixed_gap': False}

        def fail(msg):
            raise Violation('C20: %s\n  %s' % (msg, '\n  '.join(trace)))

        deferred = []

        def feed(what, raw, depth=0, defer=False):
            o = S.feed(raw)
            st_now[0] = o.st
            for d in o.deliv:
                if d['b'].get(11):
                    delivered.add(d['b'].get(11))
            outs = [(m.type, m.get(7) or '') for m in o.msgs]
            trace.append('  %s -> delivered %s out %s state %s next expected %s' % (what, [d['b'].get(11) for d in o.deliv], outs, sessref.STATE_NAMES[o.st], o.nrs))
            if any(m.type == '5' for m in o.msgs) or o.shut or o.st == sessref.ST_TERMINATED:
                fail('the session terminated on conformant traffic (%s)' % what)
            for m in o.msgs:
                if m.type == '2':
                    if depth > 3:
                        fail('ResendRequest issued again while its own request is being answered')
                    b, e = int(m.get(7)), int(m.get(16))
                    if defer:
                        deferred.append((b, e))
                        continue
                    answer(b, e, depth)
            return o

        def answer(b, e, depth=0):
            if True:
                if True:
                    rng = [s for s in range(b, peer.pn)]
                    stats['gap_max'] = max(stats['gap_max'], len(rng))
                    kinds = {peer.sent[s]['type'] in sessref.ADMIN_TYPES for s in rng}
                    if len(kinds) == 2:
                        stats['mixed_gap'] = True
                    clock[0] += 1
                    sessref.set_clock(ex, clock[0])
                    for w, r in peer.replay(b, e, ts(clock[0]), case['gfpd']):
                        feed(w, r, depth + 1)

        def logon():
            o = S.new(case['role'], me, them, 30, 'mem:c20')
            seq, raw = peer.new('A', ts(clock[0]), [(98, 0), (108, 30)])
            o = feed('Logon 34=%d' % seq, raw)
            if st_now[0] != sessref.ST_CONTINUOUS and st_now[0] != sessref.ST_RESEND_REQUEST_SENT:
                fail('logon did not establish the session (state %s)' % sessref.STATE_NAMES[o.st])

        logon()
        pending_lost = 0                   # numbers the counterparty used that the session has not been offered yet
        n = 0
        for op in case['ops']:
            clock[0] += 1
            sessref.set_clock(ex, clock[0])
            now = ts(clock[0])
            k = op[0]
            n += 1
            if k == 'own_send':
                o = S.send(sessref.nos_spec('mine%d' % n))
                continue
            if k == 'reconnect':
                if pending_lost:
                    cls.add('reconnect_with_logon_above_expected')
                trace.append('reconnect (session restarted on its store)%s' % (', %d messages were sent while disconnected' % pending_lost if pending_lost else ''))
                S.delete()
                logon()
                if pending_lost:
                    pending_lost = 0
                cls.add('reconnect')
                continue
            lost, early = op[1], op[2]
            if k == 'app':
                seq, raw = peer.new('D', now, sessref.nos_toks('p%d' % peer.pn, now), app_id='p%d' % peer.pn)
            elif k == 'hb':
                seq, raw = peer.new('0', now)
            else:
                seq, raw = peer.new('1', now, [(112, 'T%d' % n)])
            if lost:
                pending_lost += 1
                trace.append('counterparty sends %s 34=%d while disconnected (lost)' % (k, seq))
                cls.add('loss')
                continue
            if pending_lost and early:
                # the counterparty sends 1-3 more new messages (application or administrative) before it has seen the ResendRequest; only then does it answer the request(s)
                trace.append('counterparty sends %s 34=%d' % (k, seq))
                feed('%s 34=%d' % (k, seq), raw, defer=True)
                more = list(op[3])[:int(early)] if len(op) > 3 else ['app']
                for kind2 in more:
                    if kind2 == 'app':
                        seq2, raw2 = peer.new('D', now, sessref.nos_toks('p%d' % peer.pn, now), app_id='p%d' % peer.pn)
                    elif kind2 == 'hb':
                        seq2, raw2 = peer.new('0', now)
                    else:
                        seq2, raw2 = peer.new('1', now, [(112, 'U%d' % peer.pn)])
                    trace.append('counterparty sends %s 34=%d before it has seen the ResendRequest' % (kind2, seq2))
                    feed('%s 34=%d' % (kind2, seq2), raw2, defer=True)
                    if kind2 != 'app': cls.add('admin_in_flight_before_request_seen')
                cls.add('new_message_before_request_seen')
                if len(more) >= 2: cls.add('several_in_flight_before_request_seen')
                while deferred:
                    b, e = deferred.pop(0)
                    answer(b, e)
                pending_lost = 0
                continue
            trace.append('counterparty sends %s 34=%d' % (k, seq))
            feed('%s 34=%d' % (k, seq), raw)
            pending_lost = 0
        # quiescence
        if pending_lost:
            clock[0] += 1
            sessref.set_clock(ex, clock[0])
            seq, raw = peer.new('0', ts(clock[0]))
            trace.append('quiescence: counterparty sends Heartbeat 34=%d' % seq)
            feed('hb 34=%d' % seq, raw)
        o = S.obs()
        want = {m['id'] for m in peer.sent.values() if m['id']}
        missing = sorted(want - delivered)
        if missing:
            fail('application messages of the counterparty never delivered: %s' % missing)
        if o.nrs != peer.pn:
            fail('after recovery the session expects %s, the counterparty\'s next number is %d' % (o.nrs, peer.pn))
        S.delete()
        if stats['mixed_gap']: cls.add('gap_with_app_and_admin')
        return {'nontrivial': stats['gap_max'] >= 3 or stats['mixed_gap'] or 'reconnect_with_logon_above_expected' in cls, 'classes': sorted(cls) + ['role:' + case['role']], 'excluded': excluded, 'key': case,
                'sample': {'history': trace[:40]}}


CHECKS['C20'] = C20


# ================================================================================================
# C21: two fix8 sessions deliver every application message across drops and restarts
# ================================================================================================
class C21:
    id = 'C21'
    level = 'exploration'
    build = [('asan', 'fx')]
    workers = 8
    examples = 500
    assumptions = ['initiator and acceptor are two real Session/Connection pairs in one executor (coroutine model), each on its own FilePersister; the harness is the wire: bytes written by one '
                   'side are fed to the other side when the schedule says "pump"; bytes still in flight at a drop are lost',
                   'a failure always ends both session objects (a broken connection ends the acceptor\'s session instance as well); both are rebuilt from their files and log on again. '
                   'drop = bytes in flight in both directions lost; restart of one side = bytes in flight towards that side lost, bytes it had already put on the wire still arrive',
                   'failures happen between operations (the statement\'s crash-point granularity); no timers run (heartbeat supervision is C22)',
                   'quiescence: at the end each side sends one more application message and everything is pumped until nothing is in flight']
    rule = ('Hypothesis draws a FIX version and a schedule of 1-25 operations: A sends 1-4 application messages, B sends 1-4, pump (deliver everything in flight until quiescent), drop, '
            'restart A, restart B. Oracle at the final quiescence: every application message id reached the peer application at least once; first deliveries are in send order; every '
            're-delivery carries PossDupFlag=Y; no Logout was ever put on the wire and both sessions are established; pumping always reaches quiescence. Non-trivial: a failure with '
            'application messages in flight, followed by further sends.')

    def __init__(self, tier):
        self.tier = tier
        if tier == 'thorough':
            self.examples = 10000
            self.workers = 16

    def make_executor(self):
        return executor()

    def strategy(self):
        op = st.one_of(st.tuples(st.just('a_send'), st.integers(1, 4)), st.tuples(st.just('b_send'), st.integers(1, 4)),
                       st.tuples(st.just('pump')), st.tuples(st.just('pump')),
                       st.tuples(st.just('drop')), st.tuples(st.just('restart_a')), st.tuples(st.just('restart_b')),
                       # the same failures with the reconnect only half way: the initiator's Logon has reached the acceptor (which is established and may send at once),
                       # the acceptor's answer is still in flight - whatever the schedule does next happens in the middle of the recovery
                       st.tuples(st.just('drop'), st.just(1)), st.tuples(st.just('restart_a'), st.just(1)), st.tuples(st.just('restart_b'), st.just(1)))
        return st.fixed_dictionaries({'schema': st.sampled_from(['UTEST', 'F44']), 'ops': st.lists(op, min_size=1, max_size=25)})

    def run(self, case, ex):
        schema = case['schema']; begin = sessref.BEGIN[schema]
        sessref.wipe(ex)
        sessref.set_clock(ex, T0)
        clock = [T0]
        A, B = Sess(ex, schema, 0), Sess(ex, schema, 1)
        side = {'a': A, 'b': B}
        other = {'a': 'b', 'b': 'a'}
        flight = {'a': '', 'b': ''}               # bytes written by that side, not yet fed to the other
        sent = {'a': [], 'b': []}                 # ids in send order
        got = {'a': [], 'b': []}                  # (id, possdup) in delivery order at that side's application
        trace = [schema]
        wire_logouts = []

        def fail(msg):
            raise Violation('C21: %s\n  %s' % (msg, '\n  '.join(trace)))

        def absorb(who, o):
            flight[who] += o.out_raw
            for d in o.deliv:
                if d['b'].get(11):
                    got[who].append((d['b'].get(11), d['h'].get(43) == 'Y'))
            for m in sessref.split_stream(o.out_raw, begin) if o.out_raw else []:
                if m.type == '5':
                    wire_logouts.append((who, m.get(58)))

        def pump():
            for rounds in range(60):
                if not flight['a'] and not flight['b']:
                    return
                for who in ('a', 'b'):
                    if flight[who]:
                        data, flight[who] = flight[who], ''
                        absorb(other[who], side[other[who]].feed(data))
            fail('no quiescence after 60 rounds of pumping (messages keep flowing)')

        def connect(half=None):
            absorb('a', A.new('i', 'CLI', 'SRV', 30, 'file:c21a'))
            absorb('b', B.new('a', 'SRV', 'CLI', 30, 'file:c21b'))
            if half is None:
                pump()
            else:
                data, flight['a'] = flight['a'], ''           # the Logon reaches the acceptor; its answer stays in flight
                absorb('b', B.feed(data))

        def established(who):
            return side[who].obs().st == sessref.ST_CONTINUOUS

        def teardown(lose):
            for who in lose:
                flight[who] = ''
            # what is still on the wire towards a surviving reader arrives before the connection is seen to be gone
            for who in ('a', 'b'):
                if flight[who]:
                    data, flight[who] = flight[who], ''
                    o = side[other[who]].feed(data)
                    for d in o.deliv:
                        if d['b'].get(11):
                            got[other[who]].append((d['b'].get(11), d['h'].get(43) == 'Y'))
            A.delete(); B.delete()
            flight['a'] = flight['b'] = ''

        connect()
        cls = set()
        loss_with_flight = False
        sends_after_loss = False
        n = 0
        for op in case['ops']:
            clock[0] += 1
            sessref.set_clock(ex, clock[0])
            k = op[0]
            if k in ('a_send', 'b_send'):
                who = k[0]
                if not established(who):
                    pump()                     # an application sends on an established session only
                else:
                    if flight['a'] or flight['b']: cls.add('send_while_recovery_in_flight')
                for _ in range(op[1]):
                    n += 1
                    mid = '%s%d' % (who.upper(), n)
                    sent[who].append(mid)
                    absorb(who, side[who].send(sessref.nos_spec(mid)))
                trace.append('%s sends %s' % (who.upper(), sent[who][-op[1]:]))
                if loss_with_flight:
                    sends_after_loss = True
            elif k == 'pump':
                pump()
                trace.append('pump -> delivered at A %d, at B %d' % (len(got['a']), len(got['b'])))
            else:
                inflight_apps = any('\x0135=D\x01' in flight[w] for w in ('a', 'b'))
                lose = {'drop': ('a', 'b'), 'restart_a': ('b',), 'restart_b': ('a',)}[k]     # restart of X loses what is in flight towards X
                lost_apps = any('\x0135=D\x01' in flight[w] for w in lose)
                trace.append('%s with %d/%d bytes in flight (A->B/B->A)' % (k, len(flight['a']), len(flight['b'])))
                teardown(lose)
                connect(op[1] if len(op) > 1 else None)
                cls.add(k)
                if len(op) > 1: cls.add('reconnect_half_way')
                if lost_apps:
                    loss_with_flight = True
                    cls.add('loss_in_flight')
        # quiescence
        clock[0] += 1
        sessref.set_clock(ex, clock[0])
        pump()                                 # a reconnect left half way is completed first: applications send on established sessions only
        for who in ('a', 'b'):
            n += 1
            mid = '%s%dfinal' % (who.upper(), n)
            sent[who].append(mid)
            absorb(who, side[who].send(sessref.nos_spec(mid)))
        pump()
        oa, ob = A.obs(), B.obs()
        trace.append('final: A got %s' % got['a'])
        trace.append('final: B got %s' % got['b'])
        if wire_logouts:
            fail('a Logout was sent: %s' % wire_logouts)
        for who, o in (('A', oa), ('B', ob)):
            if o.st not in (sessref.ST_CONTINUOUS,) or o.shut:
                fail('session %s is in state %s at the end' % (who, sessref.STATE_NAMES[o.st]))
        for snd in ('a', 'b'):
            rcv = other[snd]
            first = []
            seen = set()
            for mid, pd in got[rcv]:
                if mid in seen:
                    if not pd:
                        fail('%s was delivered again to %s without PossDupFlag=Y' % (mid, rcv.upper()))
                else:
                    seen.add(mid)
                    first.append(mid)
            missing = [m for m in sent[snd] if m not in seen]
            if missing:
                fail('messages sent by %s never delivered to %s: %s' % (snd.upper(), rcv.upper(), missing))
            if first != sent[snd]:
                fail('first deliveries at %s are not in send order: %s, sent %s' % (rcv.upper(), first, sent[snd]))
        A.delete(); B.delete()
        return {'nontrivial': loss_with_flight and sends_after_loss, 'classes': sorted(cls), 'key': case, 'sample': {'schedule': trace[:40]}}


CHECKS['C21'] = C21


# ================================================================================================
# C25: concurrent senders get unique consecutive sequence numbers
# ================================================================================================
class C25:
    id = 'C25'
    level = 'exploration'
    schedule_sampled = True
    build = [('asan', 'fx'), ('tsan', 'fx')]
    workers = 4
    examples = 240
    flavours = ('asan', 'tsan')
    assumptions = ['real threads calling Session::send / Session::send_batch on one real session (threaded, pipelined and coroutine process model; the coroutine model is included because '
                   'FIXWriter::write takes the same spin lock there) over the in-memory socket, which records every write under its own mutex',
                   'schedules are sampled by the operating system scheduler (plus generated sched_yield calls), not enumerated: the harness does not own the lock schedule. The ThreadSanitizer build '
                   'adds happens-before race detection for the interleavings that did run; reports whose stacks lie entirely inside the bundled FastFlow queue/allocator are suppressed '
                   '(harness/tsan.supp) - the queue itself is C30\'s subject',
                   'a data race report from ThreadSanitizer that involves fix8 frames outside ff:: fails the case (the executor exits with the report)',
                   'messages are NewOrderSingle with unique ClOrdIDs; memory and file persister']
    rule = ('Hypothesis draws the process model, the persister, 2-8 threads and for each thread a script of sends (session-owned, caller-owned, by reference), batches of 1-5 (owned or kept) and yields. All threads start together. Oracle: the numbers '
            'on the wire are exactly next..next+n-1 in strictly increasing wire order, every ClOrdID appears exactly once, the number of accepted sends equals n, Persister::get(number) '
            'returns the wire bytes of that number, and neither AddressSanitizer/UBSan nor ThreadSanitizer reports anything. Each workload runs in the ASan build; every second one also in the '
            'TSan build. Non-trivial: >= 3 threads with >= 1 batch each.')

    def __init__(self, tier):
        self.tier = tier
        if tier == 'thorough':
            self.examples = 3000
            self.workers = 16

    def make_executor(self):
        class Pair:
            def __init__(s):
                s.ex = {'asan': pbt.Executor(timeout=180.0), 'tsan': pbt.Executor(flavour='tsan', timeout=300.0)}
                s.restarts = 0

            def close(s):
                for e in s.ex.values():
                    e.close()
        return Pair()

    def strategy(self):
        # s send(msg) | k send(msg, false): the caller keeps the message | r send(Message&) | b / B send_batch destroying / keeping the messages (1-5 members) | y yield
        step = st.one_of(st.just('s'), st.just('k'), st.just('r'), st.integers(2, 5).map(lambda n: 'b%d' % n), st.integers(1, 5).map(lambda n: 'B%d' % n),
                         st.integers(1, 5).map(lambda n: 'b%d' % n), st.just('y'))
        script = st.lists(step, min_size=1, max_size=12)
        return st.fixed_dictionaries({'pm': st.sampled_from(['thread', 'pipe', 'thread', 'pipe', 'coro']), 'persist': st.sampled_from(['mem', 'file']),
                                      'scripts': st.one_of(st.lists(script, min_size=2, max_size=8), st.lists(script, min_size=3, max_size=8)), 'tsan': st.booleans(), 'start': st.sampled_from([0, 0, 7, 1000])})

    def run(self, case, pair):
        flavours = ['asan'] + (['tsan'] if case['tsan'] and 'tsan' in self.flavours else [])
        info = None
        for fl in flavours:
            info = self.run_one(case, pair.ex[fl], fl)
        return info

    def run_one(self, case, ex, flavour):
        schema = 'UTEST'; begin = sessref.BEGIN[schema]
        sessref.wipe(ex)
        sessref.set_clock(ex, T0)
        S = Sess(ex, schema)
        o = S.new('i', 'CLI', 'SRV', 30, case['persist'] + ':c25', '-', case['start'], 0, pm=case['pm'])
        stream = o.out_raw
        o = S.feed(inbound(begin, 'A', 'SRV', 'CLI', 1, ts(T0), [(98, 0), (108, 30)]))
        stream += o.out_raw
        import time
        logon_no = case['start'] or 1
        for i in range(4000):
            # established, and the session's own Logon has left the (possibly pipelined) writer
            if o.st == sessref.ST_CONTINUOUS and o.nss == logon_no + 1 and ('\x0135=A\x01' in stream):
                break
            if i > 50:
                time.sleep(0.002)      # waiting for the reader/callback threads of the session under test; the budget is generous, the outcome does not depend on it
            o = S.obs(); stream += o.out_raw
        if o.st != sessref.ST_CONTINUOUS:
            raise Violation('C25: setup: logon in %s model did not complete (state %s)' % (case['pm'], sessref.STATE_NAMES[o.st]))
        first = o.nss
        nid = 0
        scripts, ids = [], []
        for sc in case['scripts']:
            toks = []
            for stp in sc:
                if case['pm'] == 'pipe':
                    # the pipelined model ignores the destroy flag (the writer thread owns and deletes every message) and refuses send(Message&): only the owning forms apply
                    stp = {'k': 's', 'r': 's'}.get(stp, stp)
                    if stp[0] == 'B':
                        stp = 'b' + stp[1:]
                if stp == 'y':
                    toks.append('y')
                elif stp in ('s', 'k', 'r'):
                    nid += 1; ids.append('ID%d' % nid); toks.append('%s%d' % (stp, nid))
                else:
                    k = int(stp[1:]); mine = list(range(nid + 1, nid + 1 + k)); nid += k
                    ids += ['ID%d' % i for i in mine]
                    toks.append(stp[0] + '+'.join(map(str, mine)))
            scripts.append(toks)
        if not ids:
            return {}
        o = S.conc(scripts)
        accepted = o.ret
        out = o.out_raw
        msgs = sessref.split_stream(out, begin) if self.complete(out, begin) else []
        nss = o.nss
        for _ in range(2000):
            # quiescence: everything is on the wire and the session has advanced its next number past the last message (which it does after storing it)
            if len(msgs) >= len(ids) and nss >= first + len(ids):
                break
            if _ > 50:
                time.sleep(0.005)
            o2 = S.obs()
            nss = o2.nss
            out += o2.out_raw
            msgs = sessref.split_stream(out, begin) if self.complete(out, begin) else msgs
        desc = '%s build, %s model, %s persister, %d threads, scripts %s' % (flavour, case['pm'], case['persist'], len(scripts), scripts)
        seqs = [m.seq for m in msgs]
        if len(msgs) != len(ids):
            raise Violation('C25: %d messages on the wire for %d sends\n %s\n numbers %s' % (len(msgs), len(ids), desc, seqs))
        if seqs != list(range(first, first + len(ids))):
            raise Violation('C25: wire numbers are not %d..%d in increasing order: %s\n %s' % (first, first + len(ids) - 1, seqs, desc))
        wire_ids = [m.get(11) for m in msgs]
        if sorted(wire_ids) != sorted(ids):
            raise Violation('C25: ClOrdIDs on the wire differ from the ids sent: missing %s, extra/duplicate %s\n %s' % (
                sorted(set(ids) - set(wire_ids)), sorted(w for w in wire_ids if wire_ids.count(w) > 1 or w not in ids), desc))
        if accepted != len(ids):
            raise Violation('C25: send/send_batch accepted %s messages, %d were sent\n %s' % (accepted, len(ids), desc))
        for m in msgs:
            r = S.get(m.seq).ret
            if not r['ok'] or sessref.unhx(r['v']) != m.raw:
                raise Violation('C25: stored copy under %d is not the transmitted message\n wire  : %r\n stored: %r\n %s' % (m.seq, m.raw[:200], sessref.unhx(r['v'])[:200] if r['ok'] else None, desc))
        fin = S.delete()
        nb = sum(1 for sc in scripts if any(t[0] in 'bB' for t in sc))
        return {'nontrivial': len(scripts) >= 3 and nb == len(scripts), 'classes': ['pm:' + case['pm'], 'persist:' + case['persist'], 'build:' + flavour, 'threads:%d' % len(scripts)],
                'key': [case, flavour], 'sample': {'model': case['pm'], 'persist': case['persist'], 'scripts': scripts, 'wire_ids_in_order': wire_ids[:40]}}

    @staticmethod
    def complete(out, begin):
        """the accumulated bytes end on a message boundary (cheap test before the strict framer is used)"""
        return out.endswith('\x01') and out[-7:-4] == '10='


class C25quickdev(C25):
    """development aid: ASan build only"""
    build = [('asan', 'fx')]
    flavours = ('asan',)


CHECKS['C25'] = C25
CHECKS['C25a'] = C25quickdev
