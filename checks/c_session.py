"""Session-level checks over the real Session + Connection running on an in-memory socket (harness/cpp/fx_sess.cpp):
C15 reader framing."""
import pbt, fixref, sessref
from sessref import Sess, Msg, frame, inbound, ts, hx, SOH
from pbt import Violation
from hypothesis import strategies as st

T0 = 1700000000          # virtual clock origin of every case (2023-11-14 22:13:20 UTC)


def executor():
    return pbt.Executor(timeout=120.0)


def sized_news(begin, sender, target, seq, sending, body_len):
    """a News message (35=B) whose BodyLength is exactly body_len (>= minimum), built from LinesOfText entries of <= 2047 chars"""
    fixed = [(35, 'B'), (49, sender), (56, target), (34, seq), (52, sending), (148, 'h')]
    base = sum(len('%s=%s\x01' % t) for t in fixed)
    room = body_len - base
    # 33=<k>| + k * (58=...|)
    for k in range(1, 6):
        over = len('33=%d\x01' % k) + k * len('58=\x01')
        fill = room - over
        if fill >= k and fill <= k * 2047:
            lens = [fill // k + (1 if i < fill % k else 0) for i in range(k)]
            toks = fixed + [(33, k)] + [(58, chr(97 + i) * n) for i, n in enumerate(lens)]
            m = frame(begin, toks)
            assert int(Msg(m).get(9)) == body_len, (Msg(m).get(9), body_len)
            return m
    return None


class C15:
    id = 'C15'
    level = 'exploration'
    build = [('asan', 'fx')]
    workers = 8
    examples = 3000
    assumptions = ['the session on top of the reader is a logged-on initiator and the generated stream is protocol-valid (Logon reply, then consecutive sequence numbers), '
                   'so that the session itself never stops the reader; what the reader hands over is recorded in an override of the virtual Session::process before the '
                   'real processing runs',
                   'coroutine model: the harness calls Connection::reader_execute() while bytes are pending and stops at the first negative return (the error report of that model); '
                   'threaded model: the reader thread runs freely on a blocking in-memory socket and the harness waits until it has drained the bytes or terminated',
                   'every generated stream ends on a message boundary (a stream that stops mid-message is a dropped connection, not a corrupted preamble)',
                   'corruptions are exactly the listed ones: BeginString (other version / case / one character off), first field not "8=", BodyLength non-numeric (first or later '
                   'character), empty, zero, above the 8172 limit, 10-20 digits (incl. values that wrap modulo 2^32 into the legal range); a BodyLength that is numeric, in range '
                   'and merely wrong is not in the statement and not generated']
    rule = ('Hypothesis draws the FIX version (FIX42UTEST | FIX44), 1-12 messages (Logon reply, heartbeats, orders with 0-2047 byte text, News messages sized to chosen BodyLengths '
            'incl. the 8172 limit and 1/10/100/1000), a chunk schedule (all-ones, small, large, boundaries inside "8=..|9=", inside BodyLength and inside the checksum) and optionally one '
            'preamble corruption after k good messages followed by more valid messages. Oracle: valid stream -> the strings handed to Session::process are exactly the sent messages, '
            'byte-identical and in order, for every chunking; corrupted -> exactly the k good messages are handed over, nothing after, and the reader reported an error '
            '(negative return / session terminated). ASan/UBSan on. Non-trivial: >= 3 messages and a chunk boundary strictly inside a message preamble, or a corruption.')

    def __init__(self, tier):
        self.tier = tier
        if tier == 'thorough':
            self.examples = 100000
            self.workers = 16

    def make_executor(self):
        return executor()

    def strategy(self):
        msg = st.one_of(
            st.tuples(st.just('hb')),
            st.tuples(st.just('nos'), st.integers(0, 2047)),
            st.tuples(st.just('nos'), st.integers(0, 60)),
            st.tuples(st.just('news'), st.one_of(st.sampled_from([8172, 8171, 8000, 4096, 1000, 999, 1001, 100, 101, 99]), st.integers(80, 8172))),
        )
        chunks = st.one_of(
            st.just('ones'),
            st.lists(st.integers(1, 8), min_size=1, max_size=400),
            st.lists(st.integers(1, 40), min_size=1, max_size=200),
            st.lists(st.one_of(st.integers(1, 30), st.integers(1, 9000)), min_size=0, max_size=40),
            st.tuples(st.just('edges'), st.lists(st.integers(-3, 24), min_size=1, max_size=24)),
        )
        corr = st.one_of(st.none(), st.none(), st.tuples(
            st.sampled_from(['begin_other', 'begin_case', 'begin_char', 'first_tag', 'first_tag88', 'first_noeq', 'bl_alpha_first', 'bl_alpha_later', 'bl_empty', 'bl_zero', 'bl_zeros',
                             'bl_over', 'bl_over_big', 'bl_wrap', 'bl_20digits', 'bl_minus', 'bl_space']),
            st.integers(0, 11), st.integers(0, 2), st.integers(0, 1 << 30)))
        return st.fixed_dictionaries({'schema': st.sampled_from(['UTEST', 'F44']), 'msgs': st.lists(msg, min_size=0, max_size=11), 'chunks': chunks, 'corr': corr,
                                      'pm': st.sampled_from(['coro', 'coro', 'coro', 'thread'])})

    def corrupt(self, begin, raw, kind, r):
        m = Msg(raw)
        body = raw[raw.index(SOH, raw.index('\x019=') + 1) + 1:]      # everything after the BodyLength field
        n = m.get(9)
        other = 'FIX.4.4' if begin == 'FIX.4.2' else 'FIX.4.2'
        bl = {'bl_alpha_first': 'x' + n[1:] if len(n) > 1 else 'x', 'bl_alpha_later': n[0] + 'x' + n[1:], 'bl_empty': '', 'bl_zero': '0', 'bl_zeros': '000',
              'bl_over': str(8173 + r % 1800), 'bl_over_big': str(10000 + r % 4000000), 'bl_wrap': str((1 << 32) + int(n)), 'bl_20digits': '1' * 20,
              'bl_minus': '-' + n, 'bl_space': ' ' + n}
        if kind in bl:
            return '8=%s\x019=%s\x01' % (begin, bl[kind]) + body
        if kind == 'begin_other': return '8=%s\x019=%s\x01' % (other, n) + body
        if kind == 'begin_case': return '8=%s\x019=%s\x01' % (begin.lower(), n) + body
        if kind == 'begin_char':
            i = r % len(begin)
            b2 = begin[:i] + ('X' if begin[i] != 'X' else 'Y') + begin[i + 1:]
            return '8=%s\x019=%s\x01' % (b2, n) + body
        if kind == 'first_tag': return '%d=%s\x019=%s\x01' % ([9, 7, 35, 0][r % 4], begin, n) + body
        if kind == 'first_tag88': return '8%d=%s\x019=%s\x01' % (r % 10, begin, n) + body
        if kind == 'first_noeq': return '8%s\x019=%s\x01' % (begin, n) + body
        if kind == 'bl_tag90': return '8=%s\x019%d=%s\x01' % (begin, r % 10, n) + body
        raise ValueError(kind)

    def run(self, case, ex):
        schema = case['schema']
        begin = sessref.BEGIN[schema]
        sessref.wipe(ex)
        sessref.set_clock(ex, T0)
        now = ts(T0)
        good = [inbound(begin, 'A', 'SRV', 'CLI', 1, now, [(98, 0), (108, 30)])]
        seq = 2
        for m in case['msgs']:
            if m[0] == 'hb':
                good.append(inbound(begin, '0', 'SRV', 'CLI', seq, now))
            elif m[0] == 'nos':
                good.append(inbound(begin, 'D', 'SRV', 'CLI', seq, now, sessref.nos_toks('o%d' % seq, now) + ([(58, 't' * m[1])] if m[1] else [])))
            else:
                raw = sized_news(begin, 'SRV', 'CLI', seq, now, m[1])
                if raw is None:
                    continue
                good.append(raw)
            seq += 1
        corr = case['corr']
        stream_msgs = list(good)
        k = None
        if corr:
            kind, k, ntrail, r = corr
            k = min(k, len(good))
            # the corrupted message is a copy of a good one (the next in sequence), followed by ntrail further valid messages
            victim = inbound(begin, '0', 'SRV', 'CLI', k + 1, now) if k >= len(good) else good[k]
            bad = self.corrupt(begin, victim, kind, r)
            trail = [inbound(begin, '0', 'SRV', 'CLI', k + 2 + i, now) for i in range(ntrail)]
            stream_msgs = good[:k] + [bad] + trail
        data = ''.join(stream_msgs)
        # chunk schedule
        ch = case['chunks']
        starts = []
        off = 0
        for m in stream_msgs:
            starts.append(off)
            off += len(m)
        if ch == 'ones':
            chunks = [1] * len(data)
        elif isinstance(ch, (list, tuple)) and len(ch) == 2 and ch[0] == 'edges':
            cuts = sorted({s + d for s, d in zip(starts * 3, ch[1] * 3) if 0 < s + d < len(data)} | {e - 4 for e in starts[1:] if e - 4 > 0})
            chunks = [b - a for a, b in zip([0] + cuts, cuts)]
        else:
            chunks = list(ch)
        # boundaries strictly inside a preamble (first 16 bytes of a message, not its first byte)?
        cut = 0
        cutset = set()
        for c in chunks:
            cut += c
            cutset.add(cut)
        inside = any(any(s < c < s + 16 for c in cutset) for s in starts)
        S = Sess(ex, schema)
        S.new('i', 'CLI', 'SRV', 30, 'none', '-', 0, 0, pm=case['pm'])
        o = S.feed(data, chunks)
        fin = S.delete()
        o.proc += fin.proc
        want = good if corr is None else good[:k]
        desc = '%s %s, %d messages, chunks %s%s' % (schema, case['pm'], len(stream_msgs), str(chunks[:20]) + ('...' if len(chunks) > 20 else ''),
                                                   '' if corr is None else ', corruption %s after %d good messages: %r' % (corr[0], k, stream_msgs[k][:40]))
        if o.proc != want:
            for i, (g, w) in enumerate(zip(o.proc, want)):
                if g != w:
                    raise Violation('C15: message #%d handed to the session differs from the one sent\n sent  : %r\n handed: %r\n case: %s' % (i, w[:200], g[:200], desc))
            if len(o.proc) > len(want):
                raise Violation('C15: the reader handed over %d strings, only %d valid messages precede the corruption / were sent; extra: %r\n case: %s' % (
                    len(o.proc), len(want), o.proc[len(want)][:200], desc))
            raise Violation('C15: the reader handed over %d of %d valid messages (state %s, reader return %s)\n case: %s' % (
                len(o.proc), len(want), sessref.STATE_NAMES[o.st], o.d.get('rxret'), desc))
        if corr is not None:
            stopped = (o.d.get('rxret', 0) < 0) or o.st == sessref.ST_TERMINATED or o.shut
            if not stopped:
                raise Violation('C15: corrupted preamble did not stop the reader with an error (return %s, state %s)\n case: %s' % (o.d.get('rxret'), sessref.STATE_NAMES[o.st], desc))
        cls = ['schema:' + schema, 'pm:' + case['pm'], 'corr:' + (corr[0] if corr else 'none')]
        if ch == 'ones': cls.append('chunks:ones')
        if any(len(m) > 8000 for m in good): cls.append('near_limit_message')
        return {'nontrivial': (len(stream_msgs) >= 3 and inside) or corr is not None, 'classes': cls,
                'key': [schema, [len(m) for m in stream_msgs], chunks[:64], corr[0] if corr else None],
                'sample': {'schema': schema, 'model': case['pm'], 'message_sizes': [len(m) for m in stream_msgs], 'chunks': chunks[:30], 'corruption': corr[0] if corr else None}}


CHECKS = {'C15': C15}


# ================================================================================================
# C16 / C17: outbound numbering, control record, stored copies - histories over a logged-on session
# ================================================================================================
class Peer:
    """bookkeeping of the conformant counterparty that feeds the session under test: its own outbound numbering"""

    def __init__(self, begin, me, them):
        self.begin, self.me, self.them = begin, me, them

    def msg(self, mtype, seq, now, extra=(), **kw):
        return inbound(self.begin, mtype, self.me, self.them, seq, now, extra, **kw)


def st_history():
    op = st.one_of(
        st.tuples(st.just('send')), st.tuples(st.just('send')),
        st.tuples(st.just('batch'), st.integers(2, 6)),
        st.tuples(st.just('in_app')),
        st.tuples(st.just('in_testreq')),
        st.tuples(st.just('in_hb')),
        st.tuples(st.just('in_bad'), st.sampled_from(['unknown_tag', 'missing_mandatory', 'bad_value'])),
        st.tuples(st.just('tick')),
        st.tuples(st.just('in_resend'), st.integers(1, 12), st.integers(0, 12)),
        st.tuples(st.just('restart')),
    )
    return st.fixed_dictionaries({
        'schema': st.sampled_from(['UTEST', 'F44']),
        'role': st.sampled_from(['i', 'a']),
        'persist': st.sampled_from(['mem', 'file', 'file']),
        'start': st.one_of(st.just((0, 0)), st.just((0, 0)), st.tuples(st.integers(1, 300), st.integers(1, 300)), st.tuples(st.integers(2, 50), st.just(0)), st.tuples(st.just(0), st.integers(2, 50))),
        'prepop': st.one_of(st.none(), st.none(), st.tuples(st.integers(1, 500), st.integers(1, 500))),
        'wmax': st.sampled_from([0, 0, 0, 1, 7, 100]),
        'ops': st.lists(op, min_size=1, max_size=25),
    })


class SeqHistory:
    """runs one generated history and returns everything the two oracles need"""
    level = 'exploration'
    build = [('asan', 'fx')]
    workers = 8
    examples = 2000
    hb = 30

    def __init__(self, tier):
        self.tier = tier
        if tier == 'thorough':
            self.examples = 20000
            self.workers = 16

    def make_executor(self):
        return executor()

    def strategy(self):
        return st_history()

    # --- the history interpreter ------------------------------------------------------------------
    def run(self, case, ex):
        schema = case['schema']
        begin = sessref.BEGIN[schema]
        initiator = case['role'] == 'i'
        me, them = ('CLI', 'SRV') if initiator else ('SRV', 'CLI')
        peer = Peer(begin, them, me)
        sessref.wipe(ex)
        clock = [T0]
        sessref.set_clock(ex, T0)
        S = Sess(ex, schema)
        pname = '%s:h' % case['persist']
        flags = ('wmax=%d' % case['wmax']) if case['wmax'] else '-'
        ns, nr = 1, 1                      # model: next send, next expected receive
        if case['prepop']:
            # a store left behind by an earlier run: created through a first session lifetime with configured numbers
            ps, pr = case['prepop']
            S.new(case['role'], me, them, self.hb, pname, flags, ps, pr)
            if initiator:
                ns, nr = ps + 1, pr       # its Logon took number ps
                o = S.feed(peer.msg('A', nr, ts(T0), [(98, 0), (108, self.hb)]))
                nr += 1
            else:
                o = S.feed(peer.msg('A', pr, ts(T0), [(98, 0), (108, self.hb)]))
                ns, nr = ps + 1, pr + 1
            S.delete()
        wire = []                          # every outbound message of the lifetimes under observation, in order
        new_msgs = []                      # (seq, Msg) of new (not retransmitted, not SequenceReset) messages
        trace = []
        state = {'ns': ns, 'nr': nr, 'first': True}
        cfg = case['start'] if not case['prepop'] else (0, 0)
        stored_expect = {}
        cls = set()

        def absorb(o, what):
            """classify the outbound messages of one step and run the per-step oracles"""
            for m in o.msgs:
                wire.append(m)
                if m.type == '4':
                    if m.get(123) == 'Y' and m.get(36, '').isdigit() and int(m.get(36)) > state['ns']:
                        state['ns'] = int(m.get(36))       # an announced NewSeqNo moves the numbering on (C18: "continue from the last NewSeqNo announced")
                    continue
                if m.possdup:
                    continue
                self.on_new(m, state, trace, what)
                new_msgs.append(m)
                state['ns'] = (m.seq or 0) + 1
            self.after_step(o, state, trace, what)

        def logon(first_cfg):
            s_cfg, r_cfg = first_cfg
            o = S.new(case['role'], me, them, self.hb, pname, flags, s_cfg, r_cfg)
            if s_cfg: state['ns'] = s_cfg
            if r_cfg: state['nr'] = r_cfg
            if initiator:
                absorb_logon(o)
                o = S.feed(peer.msg('A', state['nr'], ts(clock[0]), [(98, 0), (108, self.hb)]))
                state['nr'] += 1
                absorb(o, 'logon reply in')
            else:
                o = S.feed(peer.msg('A', state['nr'], ts(clock[0]), [(98, 0), (108, self.hb)]))
                state['nr'] += 1
                absorb(o, 'logon in')
            if o.st != sessref.ST_CONTINUOUS:
                raise Violation('%s: session did not reach continuous state after logon (state %s)\n%s' % (self.id, sessref.STATE_NAMES[o.st], '\n'.join(trace)))

        def absorb_logon(o):
            for m in o.msgs:
                wire.append(m)
                self.on_new(m, state, trace, 'logon out')
                new_msgs.append(m)
                state['ns'] = (m.seq or 0) + 1

        trace.append('%s %s %s persist=%s start=%s prepop=%s wmax=%s' % (schema, 'initiator' if initiator else 'acceptor', begin, case['persist'], cfg, case['prepop'], case['wmax']))
        logon(cfg)
        oid = [0]
        nbatch = nrestart = nadmin_between = 0
        last_was_app = False
        for op in case['ops']:
            k = op[0]
            now = ts(clock[0])
            if k == 'send':
                oid[0] += 1
                trace.append('send app o%d' % oid[0])
                absorb(S.send(sessref.nos_spec('o%d' % oid[0])), 'send')
            elif k == 'batch':
                ids = []
                for _ in range(op[1]):
                    oid[0] += 1
                    ids.append('o%d' % oid[0])
                trace.append('send_batch %s' % ids)
                nbatch += 1
                absorb(S.batch([sessref.nos_spec(i) for i in ids]), 'batch')
                cls.add('batch')
            elif k == 'in_app':
                trace.append('inbound app 34=%d' % state['nr'])
                o = S.feed(peer.msg('D', state['nr'], now, sessref.nos_toks('p%d' % state['nr'], now)))
                state['nr'] += 1
                absorb(o, 'in_app')
            elif k == 'in_testreq':
                trace.append('inbound TestRequest 34=%d' % state['nr'])
                o = S.feed(peer.msg('1', state['nr'], now, [(112, 'T%d' % state['nr'])]))
                state['nr'] += 1
                absorb(o, 'in_testreq')
                cls.add('admin_reply')
            elif k == 'in_hb':
                trace.append('inbound Heartbeat 34=%d' % state['nr'])
                o = S.feed(peer.msg('0', state['nr'], now))
                state['nr'] += 1
                absorb(o, 'in_hb')
            elif k == 'in_bad':
                trace.append('inbound undecodable (%s) 34=%d' % (op[1], state['nr']))
                toks = sessref.nos_toks('x', now)
                if op[1] == 'unknown_tag': toks = toks + [(20999, 'zz')]
                elif op[1] == 'missing_mandatory': toks = [t for t in toks if t[0] != 54]
                else: toks = [(t[0], 'notatime') if t[0] == 60 else t for t in toks]
                o = S.feed(peer.msg('D', state['nr'], now, toks))
                state['nr'] += 1
                absorb(o, 'in_bad')
                cls.add('reject')
            elif k == 'tick':
                clock[0] += self.hb
                sessref.set_clock(ex, clock[0])
                now = ts(clock[0])
                trace.append('clock +%ds, inbound Heartbeat 34=%d, supervision tick' % (self.hb, state['nr']))
                o = S.feed(peer.msg('0', state['nr'], now))
                state['nr'] += 1
                absorb(o, 'in_hb')
                absorb(S.tick(), 'tick')
                cls.add('tick')
            elif k == 'in_resend':
                b, e = op[1], op[2]
                if e and e < b:
                    b, e = e, b
                trace.append('inbound ResendRequest 34=%d 7=%d 16=%d' % (state['nr'], b, e))
                o = S.feed(peer.msg('2', state['nr'], now, [(7, b), (16, e)]))
                state['nr'] += 1
                absorb(o, 'in_resend')
                cls.add('resend')
            elif k == 'restart':
                trace.append('restart (new Session/Connection on the same store)')
                self.before_restart(S, new_msgs, trace)
                S.delete()
                nrestart += 1
                logon((0, 0))
                cls.add('restart')
        self.at_end(S, new_msgs, trace)
        S.delete()
        seqs = [m.seq for m in new_msgs]
        return {'nontrivial': self.nontrivial(case, cls), 'classes': sorted(cls) + ['role:' + case['role'], 'persist:' + case['persist'], 'schema:' + schema],
                'key': case, 'sample': {'history': trace[:30], 'new_message_numbers': seqs[:60]}}

    def on_new(self, m, state, trace, what): pass
    def after_step(self, o, state, trace, what): pass
    def before_restart(self, S, new_msgs, trace): pass
    def at_end(self, S, new_msgs, trace): pass


class C16(SeqHistory):
    id = 'C16'
    assumptions = ['real Session + ClientConnection/ServerConnection + FIXWriter/FIXReader in the coroutine model over an in-memory socket (short writes of 1..100 bytes in some cases); '
                   'virtual clock; the counterparty is conformant and always in sequence (gaps are C19/C20)',
                   'a message is "new" when it carries neither PossDupFlag=Y nor MsgType 4; a SequenceReset-GapFill that announces NewSeqNo n above the next number moves the '
                   'numbering to n (the behaviour C18 states), so the next new message is expected to carry n - the oracle does not demand more than "one greater than the '
                   'previous such message or the NewSeqNo announced in between"',
                   'the terminal Logout of a session that is shutting down is not followed by further rules (no such rule is generated)',
                   'restart = destroy Session and Connection, build new ones on the same store (FilePersister reopened from its files; the MemoryPersister object is kept)']
    rule = ('Hypothesis draws role (initiator | acceptor), FIX version, store (memory | file), start numbers (default, configured through start(send,recv), or recovered from a store '
            'left by an earlier lifetime), a short-write size and a history of 1-25 operations: application send, send_batch of 2-6, inbound application message, inbound '
            'TestRequest (answered by Heartbeat), inbound Heartbeat, inbound undecodable message (answered by Reject), clock+tick (Heartbeat), inbound ResendRequest, restart. '
            'After every step all bytes written to the socket are split into messages by an independent framer; each new message must carry exactly the model next number '
            '(start, start+1, ... across batches, admin replies and restarts, never repeated), and the persisted control record must equal (session next send, next expected '
            'receive) and the model numbers. Non-trivial: history with a batch, an admin reply between application sends, and a restart.')

    def nontrivial(self, case, cls):
        return {'batch', 'restart'} <= cls and bool(cls & {'admin_reply', 'reject', 'tick'})

    def on_new(self, m, state, trace, what):
        if m.seq != state['ns']:
            raise Violation('C16: new outbound message (%s, 35=%s) carries MsgSeqNum %s, expected %d (previous new message + 1 / configured or recovered start)\n message: %s\n history:\n  %s' % (
                what, m.type, m.seq, state['ns'], m.show()[:300], '\n  '.join(trace)))

    def after_step(self, o, state, trace, what):
        if o.nss != state['ns'] or o.nrs != state['nr']:
            raise Violation('C16: after %s the session holds next send %s / next expected receive %s, the protocol model gives %d / %d\n history:\n  %s' % (
                what, o.nss, o.nrs, state['ns'], state['nr'], '\n  '.join(trace)))
        if o.ctrl != [True, state['ns'], state['nr']]:
            raise Violation('C16: after %s the persisted control record is %s, the session numbers are next send %d / next expected receive %d\n history:\n  %s' % (
                what, o.ctrl, state['ns'], state['nr'], '\n  '.join(trace)))


class C17(SeqHistory):
    id = 'C17'
    assumptions = C16.assumptions[:1] + ['stored copies are read back through Persister::get(seqnum) at the end of the history and before every restart (and again after it)',
                                         'numbers consumed by gap-fills or never used are not probed; retransmissions (PossDupFlag=Y) are not new messages']
    rule = ('Same generated histories as C16. Oracle: the socket byte stream is split into messages by an independent framer; for every new application message with number n, '
            'Persister::get(n) must return exactly those bytes (single sends and every member of a batch alike, also after a restart on the same store); for every new '
            'administrative message number (Logon, Heartbeat, Reject, TestRequest ...) get must fail. Non-trivial: a batch of >= 3 and an administrative message between '
            'application sends.')

    def nontrivial(self, case, cls):
        return 'batch' in cls and any(o[0] == 'batch' and o[1] >= 3 for o in case['ops']) and bool(cls & {'admin_reply', 'reject', 'tick'})

    def probe(self, S, new_msgs, trace, when):
        for m in new_msgs:
            r = S.get(m.seq).ret
            if m.is_admin:
                if r['ok']:
                    raise Violation('C17: administrative message 35=%s with MsgSeqNum %d has a stored copy (%s): %r\n history:\n  %s' % (
                        m.type, m.seq, when, sessref.unhx(r['v'])[:200], '\n  '.join(trace)))
            else:
                got = sessref.unhx(r['v']) if r['ok'] else None
                if got != m.raw:
                    raise Violation('C17: stored copy of application message %d differs from the bytes transmitted (%s)\n sent  : %r\n stored: %r\n history:\n  %s' % (
                        m.seq, when, m.raw[:300], got if got is None else got[:300], '\n  '.join(trace)))

    def before_restart(self, S, new_msgs, trace):
        self.probe(S, new_msgs, trace, 'before restart')

    def at_end(self, S, new_msgs, trace):
        self.probe(S, new_msgs, trace, 'at end of history')


CHECKS.update({'C16': C16, 'C17': C17})
