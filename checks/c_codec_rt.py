"""C01 (encode/decode round trip) and C02 (well-formed wire format) over generated messages of the compiled schemas."""
import pbt, fixref
from pbt import Violation, Executor
from hypothesis import strategies as st

SCHEMAS = ['UTEST', 'F44']


class CodecBase:
    level = 'exploration'
    build = [('asan', 'fx')]
    workers = 8
    assumptions = [
        'executor fx is built from /repo working tree with clang ASan+UBSan (vptr check off: the library casts count fields to Field<int,0>)',
        'a Message object is encoded once (Session encodes then destroys; re-encoding the same object is not a documented use)',
        'schema model (positions, types, mandatory flags, group structure) is read from the compiled trait tables; C13 ties those to the XML',
        'float fields use the library default precision 2 (precision is not carried on the wire)',
        'TZTimeOnly/TZTimestamp fields are not generated (unimplemented types, excluded by construction)',
    ]

    def __init__(self, tier):
        self.tier = tier
        ex = Executor()
        self.schemas = {n: fixref.load_schema(ex, n) for n in SCHEMAS}
        ex.close()

    def strategy(self):
        def per_schema(name):
            sch = self.schemas[name]
            return fixref.st_message(sch, unpaired_length=self.unpaired_length).map(lambda spec: {'schema': name, 'spec': spec})
        return st.sampled_from(SCHEMAS).flatmap(per_schema)

    unpaired_length = True


class C01(CodecBase):
    id = 'C01'
    examples = 4000
    rule = ('Hypothesis draws schema in {FIX42UTEST, FIX44}, a message type uniformly, all mandatory fields plus a random subset of optional '
            'ones in header/body/trailer, typed values over the whole type domain, groups with 0-3 elements nested as deep as the schema allows, '
            'random insertion order. Oracle: encode == reference encoder bytes; decode(encode(m)) dump == generated spec (typed); '
            're-encode of the decoded message byte-identical. Non-trivial: >=1 optional field and (negative int, or "=" inside a value, or a '
            'group with >=2 elements, or nesting >=2, or an empty group); distinct by hash of the spec.')

    def __init__(self, tier):
        super().__init__(tier)
        if tier == 'thorough':
            self.examples = 120000
            self.workers = 16

    def run(self, case, ex):
        sch = self.schemas[case['schema']]
        spec = case['spec']
        ans = ex.call('build %s enc,dec,reenc %s' % (case['schema'], fixref.spec_tokens(spec)))
        f = fixref.spec_features(sch, spec)
        info = {
            'nontrivial': f['optional'] >= 1 and (f['neg_int'] or f['eq_in_value'] or f['multi_elem'] or f['max_depth'] >= 2 or f['empty_group']),
            'classes': ['schema:' + case['schema']] + [k for k in ('neg_int', 'eq_in_value', 'multi_elem', 'empty_group') if f[k]] +
                       ['depth%d' % f['max_depth']],
            'key': case,
            'sample': {'schema': case['schema'], 'type': spec['type'], 'wire': None},
        }
        enc = ans.get('enc')
        if not isinstance(enc, str):
            raise Violation('C01: encode failed for a valid message: %r\nspec=%s' % (enc, pbt.jdump(spec)))
        wire = bytes.fromhex(enc).decode('latin-1')
        info['sample']['wire'] = wire.replace('\x01', '|')
        ref = fixref.ref_encode(sch, spec)
        if wire != ref:
            raise Violation('C01: encoded bytes differ from the reference encoding\n got: %s\n ref: %s' % (
                wire.replace('\x01', '|'), ref.replace('\x01', '|')))
        dec = ans.get('dec')
        if not isinstance(dec, dict) or 'h' not in dec:
            raise Violation('C01: decoding the encoder\'s own output failed: %r\n wire: %s' % (dec, wire.replace('\x01', '|')))
        toks = fixref.tokenize(sch, wire, fixref.data_tags_of(sch))
        exp = fixref.expected_dump(sch, spec, bodylen=int(toks[1][1]), chk=toks[-1][1])
        m = fixref.cmp_dump(exp, dec)
        if m:
            raise Violation('C01: decoded message differs from the generated one: %s\n wire: %s' % (m, wire.replace('\x01', '|')))
        re = ans.get('reenc')
        if re != enc:
            rs = bytes.fromhex(re).decode('latin-1').replace('\x01', '|') if isinstance(re, str) else repr(re)
            raise Violation('C01: re-encoding the decoded message is not byte-identical\n first : %s\n second: %s' % (
                wire.replace('\x01', '|'), rs))
        return info


class C02(CodecBase):
    id = 'C02'
    examples = 4000
    rule = ('Messages generated as for C01 with a random insertion order of fields per section and per group element. Oracle on the encoded '
            'bytes only (Python tokeniser, Length/data aware): 8,9,35 first in that order; BodyLength == bytes between BodyLength field and '
            'CheckSum field; three-digit CheckSum == byte sum mod 256; every token decimal-tag=value SOH; header then body then trailer tokens; '
            'ascending schema position within each section/element; each group = count then exactly count elements each starting with the '
            'group\'s first field; token multiset == generated fields. The same oracle on a second encoder output: the message decoded from those bytes, about a third '
            'of its fields (in header, body, trailer and group elements) replaced by copies of themselves through add_field, encoded again. Non-trivial: insertion order differs from position order and >=1 group.')

    def __init__(self, tier):
        super().__init__(tier)
        if tier == 'thorough':
            self.examples = 120000
            self.workers = 16

    def run(self, case, ex):
        sch = self.schemas[case['schema']]
        spec = case['spec']
        import zlib
        rs = zlib.crc32(pbt.jdump(spec).encode()) & 0x7fffffff
        ans = ex.call('build %s enc,reset:%d %s' % (case['schema'], rs, fixref.spec_tokens(spec)))
        f = fixref.spec_features(sch, spec)

        def verify(enc, what):
            if not isinstance(enc, str):
                raise Violation('C02: encode failed for %s: %r\nspec=%s' % (what, enc, pbt.jdump(spec)))
            wire = bytes.fromhex(enc).decode('latin-1')
            shown = wire.replace('\x01', '|')
            try:
                parsed = fixref.check_wellformed(sch, wire)
            except fixref.Malformed as e:
                raise Violation('C02: encoder output (%s) is not well-formed FIX: %s\n wire: %s' % (what, e, shown))
            if parsed['type'] != spec['type']:
                raise Violation('C02: MsgType %r on the wire, %r generated' % (parsed['type'], spec['type']))
            for key, traits in (('h', sch.header), ('b', sch.traits(spec['type'])), ('t', sch.trailer)):
                got = fixref.flat_tokens(parsed[key])
                want = fixref.ref_tokens(spec[key], traits)
                if got != want:
                    raise Violation('C02: %s: section %s tokens differ from the generated fields\n got : %r\n want: %r\n wire: %s' % (what, key, got, want, shown))
            return shown
        shown = verify(ans.get('enc'), 'a valid message')
        # the same content reached another way: the message decoded from those bytes, a third of its fields (group elements included) set again to the value they
        # hold (add_field / operator<< on a present field replaces it), encoded again
        verify(ans.get('reset'), 'the decoded message after %s of its fields were set again to the same value' % ans.get('reset_n'))
        return {
            'nontrivial': f['permuted'] and f['groups'] >= 1,
            'classes': ['schema:' + case['schema']] + (['permuted'] if f['permuted'] else []) + (['groups'] if f['groups'] else []),
            'key': case,
            'sample': {'schema': case['schema'], 'type': spec['type'], 'insertion_order_body': [i['t'] for i in spec['b']], 'wire': shown},
        }


CHECKS = {'C01': C01, 'C02': C02}


def count_items(items):
    return sum(1 + sum(count_items(el) for el in it.get('g', [])) for it in items)


class C11(CodecBase):
    id = 'C11'
    examples = 3000
    rule = ('Messages generated as for C01 (nested groups included). For each: clone() before the original is encoded; copy_legal of body, header and '
            'trailer into a fresh deep-constructed message of the same type; move_legal likewise (source destroyed afterwards, under ASan); the same three '
            'transfers again with the message decoded from its own encoding as the source (factory-created: no group object behind a zero count). '
            'Oracle: each result, encoded once, is byte-identical to the reference encoding of the generated message and to the original\'s own '
            'encoding; copy counts == number of fields and group-element fields generated; move counts == number of top-level fields. '
            'Non-trivial: >=1 group with >=2 elements or nesting >=2.')

    def __init__(self, tier):
        super().__init__(tier)
        if tier == 'thorough':
            self.examples = 100000
            self.workers = 16

    def strategy(self):
        # as for C01, plus: float fields built with a precision other than the default (Price(1.08345, 5)) - the precision is part of the field object, so a clone or a
        # copied field has to render the same digits.  (Only here: precision is not carried on the wire, so C01's re-encode clause holds at the default precision only.)
        def with_precisions(t):
            import random
            c, r = t
            rnd = random.Random(r)
            def walk(items):
                out = []
                for it in items:
                    it = dict(it)
                    if it['k'] == 'f' and rnd.random() < 0.4:
                        p = rnd.choice([0, 1, 3, 4, 5, 7])
                        it['p'] = p
                        it['v'] = rnd.randint(-10 ** (p + 3), 10 ** (p + 3))
                    if it.get('g'):
                        it['g'] = [walk(el) for el in it['g']]
                    out.append(it)
                return out
            spec = dict(c['spec'])
            for key in ('h', 'b', 't'):
                spec[key] = walk(spec[key])
            return dict(c, spec=spec)
        return st.tuples(super().strategy(), st.integers(0, 2 ** 32 - 1)).map(with_precisions)

    def run(self, case, ex):
        sch = self.schemas[case['schema']]
        spec = case['spec']
        toks = fixref.spec_tokens(spec)
        ref = fixref.ref_encode(sch, spec)
        if len(ref) > 7000:
            return {'excluded': ['longer_than_7000_bytes']}
        ans = ex.call('build %s clone,copy,enc,dclone,dcopy,dmove %s' % (case['schema'], toks))
        mv = ex.call('movebuild %s %s' % (case['schema'], toks))
        shown = ref.replace('\x01', '|')
        f = fixref.spec_features(sch, spec)

        def wire(x):
            return bytes.fromhex(x).decode('latin-1').replace('\x01', '|') if isinstance(x, str) else repr(x)
        def has_prec(items):
            return any('p' in it or any(has_prec(el) for el in it.get('g', [])) for it in items)
        nondefault = has_prec(spec['h']) or has_prec(spec['b']) or has_prec(spec['t'])
        # a decoded field is built from text at the default precision (precision is not carried on the wire): the decoded-source transfers are compared only when
        # every float of the message has the default precision
        keys = (('enc', ans), ('clone', ans), ('copy', ans), ('move', mv)) + (() if nondefault else (('dclone', ans), ('dcopy', ans), ('dmove', ans)))
        for key, src in keys:
            got = src.get(key)
            if not isinstance(got, str) or bytes.fromhex(got).decode('latin-1') != ref:
                raise Violation('C11: %s of the message does not encode to the original content\n %-5s: %s\n ref  : %s' % (
                    {'enc': 'the original', 'clone': 'clone()', 'copy': 'copy_legal target', 'move': 'move_legal target', 'dclone': 'clone() of the decoded form',
                     'dcopy': 'copy_legal target filled from the decoded form', 'dmove': 'move_legal target filled from the decoded form'}[key], key, wire(got), shown))
        want = [count_items(spec['b']), count_items(spec['h']), count_items(spec['t'])]
        if ans.get('copy_n') != want:
            raise Violation('C11: copy_legal reported %r fields copied, generated message has %r (body, header, trailer)\n ref: %s' % (
                ans.get('copy_n'), want, shown))
        wantm = [len(spec['b']), len(spec['h']), len(spec['t'])]
        if mv.get('move_n') != wantm:
            raise Violation('C11: move_legal reported %r fields moved, generated message has %r top-level fields\n ref: %s' % (
                mv.get('move_n'), wantm, shown))
        return {
            'nontrivial': f['multi_elem'] or f['max_depth'] >= 2,
            'classes': ['schema:' + case['schema'], 'depth%d' % f['max_depth']] + (['multi_elem'] if f['multi_elem'] else []) + (['float_precision_not_default'] if nondefault else []),
            'key': case,
            'sample': {'schema': case['schema'], 'type': spec['type'], 'wire': shown},
        }


CHECKS['C11'] = C11
