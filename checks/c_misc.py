"""C08 numeric text conversions, C09 date/time codecs, C24 schedules and weekday decoding."""
import math, re, datetime, random, struct, itertools, multiprocessing
from fractions import Fraction
import pbt, fixref
from pbt import Violation, Executor
from hypothesis import strategies as st

EPOCH = datetime.datetime(1970, 1, 1)


# ================================================================================================ C08
def int_sweep_worker(args):
    chunks = args
    ex = Executor(timeout=3600)
    done = bad = 0
    first = None
    try:
        for start, count, stride in chunks:
            r = ex.call('intsweep %d %d %d' % (start, count, stride), timeout=3600)
            done += r['done']
            if r['bad'] and first is None:
                first = (r['first'], bytes.fromhex(r['firsttxt']).decode('latin-1') if r['firsttxt'] else '')
            bad += r['bad']
    finally:
        ex.close()
    return done, bad, first


class C08:
    id = 'C08'
    level = 'exploration'
    build = [('asan', 'fx')]
    workers = 8
    examples = 40000
    assumptions = ['the oracle for doubles is exact rational arithmetic (fractions.Fraction) on the IEEE value',
                   '"correctly rounded" accepts either neighbour on an exact tie (the statement does not fix the tie rule)',
                   'parse-back tolerance is the weaker of the two readings of "half a unit in the last place": max(0.5*10^-p, 0.5 ulp of the parsed double)',
                   'the int32 reference is snprintf("%d") / the value itself, computed in the executor next to itoa/fast_atoi']
    rule = ('int32: itoa<int> text == snprintf %d and fast_atoi<int>(text) == value; quick = windows of +-70000 around 0, +-2^31, every +-10^k and a '
            'stride-2039 sample of the whole range (2.1 M values); thorough = all 2^32 values (exhaustive). double: Hypothesis draws (value, precision '
            '0..9) from classes: k/10^p decimals, decimals with p+1 digits ending in 5, exact dyadic ties, values within a few ulp of ties, just below '
            '2^31 and below 10^k, integers, tiny/denormal values, random bit patterns below 2^31, negatives of all. Oracle: text matches '
            '-?digits(.digits{1,p})?, |text - value| <= 0.5*10^-p exactly, fast_atof(text) within tolerance of text. '
            'Non-trivial: negative, or tie/near-tie class, or >= 7 significant digits.')

    def __init__(self, tier):
        self.tier = tier
        if tier == 'thorough':
            self.examples = 1200000
            self.workers = 16

    def pre_search(self, stats, seed):
        if self.tier == 'thorough':
            n = 16 * 8
            size = 2 ** 32 // n
            chunks = [(-2 ** 31 + i * size, size, 1) for i in range(n)]
            jobs = [chunks[i::16] for i in range(16)]
            exhaustive = True
        else:
            edges = [0, 2 ** 31 - 70001, -2 ** 31 + 70000] + [s * 10 ** k for k in range(1, 10) for s in (1, -1)]
            chunks = [(max(-2 ** 31, e - 70000), 140001, 1) for e in edges] + [(-2 ** 31 + (seed % 2039), 2 ** 32 // 2039, 2039)]
            jobs = [chunks[i::8] for i in range(8)]
            exhaustive = False
        with multiprocessing.get_context('fork').Pool(len(jobs)) as pool:
            res = pool.map(int_sweep_worker, jobs)
        done = sum(r[0] for r in res)
        stats.evaluations += done
        stats.extra['int32_values_checked'] = done
        stats.extra['int32_exhaustive'] = exhaustive
        if exhaustive:
            stats.extra['exhaustive'] = False   # only the int half is exhaustive
        stats.nontrivial.update('int-neg-sample-%d' % i for i in range(min(done // 2, 1000)))
        stats.samples.append({'int32': 'itoa/fast_atoi vs snprintf over %d values (%s)' % (done, 'all 2^32' if exhaustive else 'windows + stride sample')})
        for d, bad, first in res:
            if bad:
                return {'case': {'int': first[0]}, 'msg': 'C08: int32 %d: itoa gives %r / fast_atoi does not return the value (%d mismatches in this chunk)' % (
                    first[0], first[1], bad)}
        return None

    def strategy(self):
        prec = st.integers(0, 9)

        def decimal(k, p): return float(Fraction(k, 10 ** p))
        dec = st.tuples(st.integers(-(2 ** 31 - 1) * 1000, (2 ** 31 - 1) * 1000), prec).map(lambda t: ('decimal', decimal(t[0], t[1]), t[1]))
        half = st.tuples(st.integers(0, 2 ** 31 - 2), st.integers(0, 10 ** 9 - 1), prec, st.booleans()).map(
            lambda t: ('p+1 digits ending in 5', (-1 if t[3] else 1) * float(Fraction((t[0] % 10 ** (9 - t[2]) if t[2] < 9 else t[0] % 100) * 10 ** (t[2] + 1) + (t[1] % 10 ** t[2]) * 10 + 5, 10 ** (t[2] + 1))), t[2]))
        dyadic = st.tuples(st.integers(0, 2 ** 20), st.integers(1, 10), st.integers(0, 1023), prec, st.booleans()).map(
            lambda t: ('dyadic', (-1 if t[4] else 1) * (t[0] + t[2] / 2.0 ** t[1]), t[3]))

        def nudge(t):
            cls, v, p = t[0]
            for _ in range(abs(t[1])):
                v = math.nextafter(v, math.inf if t[1] > 0 else -math.inf)
            return ('near:' + cls, v, p)
        near = st.tuples(st.one_of(half, dyadic, dec), st.integers(-3, 3)).map(nudge)
        edge = st.tuples(st.sampled_from([2.0 ** 31, 10.0, 100.0, 1e3, 1e4, 1e5, 1e6, 1e7, 1e8, 1e9, 1.0, 0.1, 0.01, 1e-9, 2147483647.0, 2147483647.5]),
                         st.integers(0, 40), prec, st.booleans()).map(
            lambda t: ('just below edge', (-1 if t[3] else 1) * functools_reduce_prev(t[0], t[1]), t[2]))
        ints = st.tuples(st.integers(-2 ** 31 + 1, 2 ** 31 - 1), prec).map(lambda t: ('integer', float(t[0]), t[1]))
        tiny = st.tuples(st.floats(min_value=0.0, max_value=1e-6, allow_nan=False), prec, st.booleans()).map(lambda t: ('tiny', -t[0] if t[2] else t[0], t[1]))
        bits = st.tuples(st.integers(0, 2 ** 63 - 1), prec, st.booleans()).map(lambda t: ('bits', bits_to_double(t[0], t[2]), t[1]))
        return st.one_of(dec, half, dyadic, near, near, edge, ints, tiny, bits).map(lambda t: {'cls': t[0], 'v': t[1].hex(), 'p': t[2]})

    def run(self, case, ex):
        if 'int' in case:
            r = ex.call('intsweep %d 1 1' % case['int'])
            if r['bad']:
                raise Violation('C08: int32 %d: itoa/fast_atoi mismatch' % case['int'])
            return {}
        v = float.fromhex(case['v'])
        p = case['p']
        if not math.isfinite(v) or abs(v) >= 2.0 ** 31:
            return {'excluded': ['magnitude_not_below_2^31']}
        text = bytes.fromhex(ex.call('dtoa %s:%d' % (v.hex(), p))[0]).decode('latin-1')
        V = Fraction(v)
        tol = Fraction(1, 2 * 10 ** p)
        shown = 'value %r (%s) precision %d -> text %r' % (v, v.hex(), p, text)
        pat = r'-?\d+' if p == 0 else r'-?\d+(\.\d{1,%d})?' % p
        if not re.fullmatch(pat, text):
            raise Violation('C08: %s: text is not a decimal with at most %d fraction digits' % (shown, p))
        T = Fraction(text)
        if abs(T - V) > tol:
            best = Fraction(round(V * 10 ** p), 10 ** p)
            raise Violation('C08: %s: not correctly rounded: |text - value| = %s > 0.5*10^-%d (correct: %s)' % (
                shown, float(abs(T - V)), p, float(best)))
        back = float.fromhex(ex.call('atof %s' % fixref.hexs(text))[0])
        tol2 = max(tol, Fraction(math.ulp(back)) / 2)
        if abs(Fraction(back) - T) > tol2:
            raise Violation('C08: %s: fast_atof(text) = %r, off by %s (> max(0.5*10^-p, 0.5 ulp))' % (shown, back, float(abs(Fraction(back) - T))))
        sig = len(text.replace('-', '').replace('.', '').lstrip('0'))
        scaled = V * 10 ** p
        d = abs(scaled - (math.floor(scaled) + Fraction(1, 2)))
        tie = d == 0
        near_tie = 0 < d <= Fraction(10 ** p, 2 ** 50)
        return {'nontrivial': v < 0 or tie or near_tie or sig >= 7,
                'classes': ['cls:' + case['cls'].split(':')[0], 'p%d' % p] + (['tie'] if tie else []) + (['near_tie'] if near_tie else []),
                'key': [case['v'], p], 'sample': {'value': v, 'precision': p, 'text': text, 'parsed_back': back}}


def functools_reduce_prev(x, n):
    for _ in range(n + 1):
        x = math.nextafter(x, 0.0)
    return x


def bits_to_double(b, neg):
    # random mantissa with an exponent that keeps |v| < 2^31
    mant = b & ((1 << 52) - 1)
    e = 1023 - 40 + (b >> 52) % 71          # 2^-40 .. 2^30
    v = struct.unpack('<d', struct.pack('<Q', (e << 52) | mant))[0]
    return -v if neg else v


# ================================================================================================ C09
MS_DAY = 86400000


def ms_to_text(ms):
    dt = EPOCH + datetime.timedelta(milliseconds=ms)
    return dt, dt.strftime('%Y%m%d-%H:%M:%S.') + '%03d' % (ms % 1000)


class C09:
    id = 'C09'
    level = 'exploration'
    build = [('asan', 'fx')]
    workers = 8
    examples = 6000
    assumptions = ['the oracle is Python datetime (proleptic Gregorian, UTC); TZ=UTC for the executor',
                   'log renderer: read back as a calendar time, the rendered instant must be within 10^-dplaces of the true instant (truncation or rounding both allowed) and the seconds field must be in 00..59']
    rule = ('Instants 1970-01-01 .. 2099-12-31 23:59:59.999 at millisecond precision; quick: Hypothesis instants biased to month ends, Feb 28/29, '
            'Dec 31/Jan 1, 2000-02-29, 2038-01-19 +- 1 day, 2099-12-31 (each case = 16 instants of one day, preceded on the same thread by a fixed instant or - in two cases out of three - by an instant of the '
            'same calendar day in another year or of any other day); thorough: every day 1970..2099 '
            '(47 482, exhaustive over days) x 64 generated (second-of-day, ms). For each instant: UTCTimestamp print (21 chars) and parse of the 21- '
            'and 17-char forms, UTCTimeOnly, UTCDateOnly, LocalMktDate, MonthYear (6/8), and GetTimeAsStringMS at dplaces 0..9 with sub-second parts '
            'biased to .9995.., .99999999. Non-trivial: leap day, month/year boundary, year >= 2038, or a fraction that would round up the seconds.')

    def __init__(self, tier):
        self.tier = tier
        if tier == 'thorough':
            self.examples = 47482
            self.workers = 16

    def strategy(self):
        dmax = fixref.DAY_MAX
        edges = []
        for y in (1970, 1971, 1972, 1999, 2000, 2001, 2004, 2037, 2038, 2039, 2040, 2096, 2099):
            for m, d in ((1, 1), (2, 28), (3, 1), (12, 31), (6, 30), (7, 1)):
                edges.append((datetime.date(y, m, d) - datetime.date(1970, 1, 1)).days)
            if y % 4 == 0:
                edges.append((datetime.date(y, 2, 29) - datetime.date(1970, 1, 1)).days)
        edges += [24855, 24856, 24857, 0, dmax]
        if self.tier == 'thorough':
            # exhaustive over days: worker-local enumeration is driven by the index drawn here
            day = st.integers(0, dmax)
        else:
            day = st.one_of(st.sampled_from(edges), st.integers(0, dmax))
        tod = st.one_of(st.sampled_from([0, MS_DAY - 1, 43200000, 59999, 3599999, 86399000]), st.integers(0, MS_DAY - 1))
        nsfrac = st.one_of(st.sampled_from([999500000, 999999999, 999999500, 999600000, 500000000, 0, 999949999, 1]), st.integers(0, 999999999))
        # 'pre': an instant rendered just before the case's own day on the same thread - none, the same calendar day in another year (years ahead/back), or any day:
        # whatever the renderer keeps between two calls is then part of the case and a failure replays from the case alone
        pre = st.one_of(st.none(), st.tuples(st.just('year'), st.integers(-60, 60).filter(lambda k: k != 0)), st.tuples(st.just('day'), st.integers(0, dmax)))
        return st.fixed_dictionaries({'day': day, 'tods': st.lists(tod, min_size=16 if self.tier == 'quick' else 64, max_size=16 if self.tier == 'quick' else 64),
                                      'ns': st.lists(nsfrac, min_size=4, max_size=4), 'dp': st.lists(st.integers(0, 9), min_size=4, max_size=4), 'pre': pre})

    def run(self, case, ex):
        day = case['day']
        date = datetime.date(1970, 1, 1) + datetime.timedelta(days=day)
        mss = [day * MS_DAY + t for t in case['tods']]
        ticks = [ms * 1000000 for ms in mss]
        pre = case.get('pre') or ('day', 11111)      # no generated predecessor: a fixed instant (2000-06-03) is rendered first, so that every case starts from the same renderer state
        if pre is not None:
            if pre[0] == 'year':
                try:
                    pd = date.replace(year=min(2099, max(1970, date.year + pre[1])))
                except ValueError:          # Feb 29 in a year without one
                    pd = date.replace(year=min(2099, max(1970, date.year + pre[1])), day=28)
                pday = (pd - datetime.date(1970, 1, 1)).days
            else:
                pday = pre[1]
            pms = pday * MS_DAY + case['tods'][0]
            r0 = ex.call('tsfmt %d' % (pms * 1000000))[0]
            want0 = ms_to_text(pms)[1]
            if r0['with_ms'] != want0 or r0['date_only'] != want0[:8]:
                raise Violation('C09: instant %s (ms %d) renders %r / %r' % (want0, pms, r0['with_ms'], r0['date_only']))
        res = ex.call('tsfmt ' + ' '.join(map(str, ticks)))
        texts = []
        for ms, r in zip(mss, res):
            dt, want = ms_to_text(ms)
            texts.append(want)
            exp = {'with_ms': want, 'f_ts': want, 'sec_only': want[:17], 'date_only': want[:8], 'f_do': want[:8], 'f_lm': want[:8],
                   'short_date': want[:6], 'time_with_ms': want[9:], 'f_to': want[9:], 'time_only': want[9:17]}
            for k, w in exp.items():
                if r[k] != w:
                    raise Violation('C09: instant %s (ms %d): %s renders %r, expected %r' % (want, ms, k, r[k], w))
        # parse back
        back = ex.call('tsparse ts ' + ' '.join(fixref.hexs(t) for t in texts))
        for ms, t, b in zip(mss, texts, back):
            if b[0] != ms * 1000000:
                raise Violation('C09: UTCTimestamp %r parses to %d ticks, expected %d (%s)' % (t, b[0], ms * 1000000, b[1]))
        back = ex.call('tsparse ts ' + ' '.join(fixref.hexs(t[:17]) for t in texts))
        for ms, t, b in zip(mss, texts, back):
            if b[0] != (ms // 1000) * 1000000000:
                raise Violation('C09: UTCTimestamp %r (17 chars) parses to %d ticks, expected %d' % (t[:17], b[0], (ms // 1000) * 1000000000))
        back = ex.call('tsparse to ' + ' '.join(fixref.hexs(t[9:]) for t in texts))
        for ms, t, b in zip(mss, texts, back):
            if b[0] != (ms % MS_DAY) * 1000000 or b[1] != t[9:]:
                raise Violation('C09: UTCTimeOnly %r parses to %d ticks / re-renders %r, expected %d' % (t[9:], b[0], b[1], (ms % MS_DAY) * 1000000))
        d8 = texts[0][:8]
        for kind in ('do', 'lm', 'my'):
            b = ex.call('tsparse %s %s' % (kind, fixref.hexs(d8)))[0]
            if b[0] != day * MS_DAY * 1000000 or b[1] != d8:
                raise Violation('C09: %s %r parses to %d ticks / re-renders %r, expected %d' % (
                    {'do': 'UTCDateOnly', 'lm': 'LocalMktDate', 'my': 'MonthYear(8)'}[kind], d8, b[0], b[1], day * MS_DAY * 1000000))
        b = ex.call('tsparse my %s' % fixref.hexs(d8[:6]))[0]
        first = (date.replace(day=1) - datetime.date(1970, 1, 1)).days
        if b[0] != first * MS_DAY * 1000000 or b[1] != d8[:6]:
            raise Violation('C09: MonthYear %r parses to %d ticks / re-renders %r, expected %d' % (d8[:6], b[0], b[1], first * MS_DAY * 1000000))
        # log renderer
        roundup = False
        args = []
        for ms, ns, dp in zip(mss, case['ns'], case['dp']):
            t = (ms // 1000) * 1000000000 + ns
            args.append((t, dp))
        logs = ex.call('logts ' + ' '.join('%d %d' % a for a in args))
        for (t, dp), txt in zip(args, logs):
            m = re.fullmatch(r'(\d{4})-(\d\d)-(\d\d) (\d\d):(\d\d):(\d\d)(?:\.(\d{%d}))?' % dp if dp else r'(\d{4})-(\d\d)-(\d\d) (\d\d):(\d\d):(\d\d)()', txt)
            if not m:
                raise Violation('C09: log timestamp %r for ticks %d dplaces %d has the wrong shape' % (txt, t, dp))
            y, mo, d, h, mi, s = (int(x) for x in m.groups()[:6])
            if s > 59:
                raise Violation('C09: log timestamp %r (ticks %d, dplaces %d): seconds field %02d is not in 00..59' % (txt, t, dp, s))
            frac = int(m.group(7)) if m.group(7) else 0
            shown = datetime.datetime(y, mo, d, h, mi, s)
            shown_ns = int((shown - EPOCH).total_seconds()) * 1000000000 + frac * 10 ** (9 - dp)
            if abs(shown_ns - t) > 10 ** (9 - dp):
                raise Violation('C09: log timestamp %r shows an instant %d ns away from ticks %d (dplaces %d)' % (txt, shown_ns - t, t, dp))
            ns = t % 1000000000
            if dp and ns >= 1000000000 - 5 * 10 ** (8 - dp) if dp < 9 else False:
                roundup = True
        nextday = date + datetime.timedelta(days=1)
        nt = (date.month == 2 and date.day >= 28) or nextday.day == 1 or date.day == 1 or date.year >= 2038 or roundup
        return {'nontrivial': nt, 'classes': ['y>=2038'] * (date.year >= 2038) + ['leapday'] * (date.month == 2 and date.day == 29) +
                ['seconds_roundup'] * roundup, 'key': case, 'sample': {'day': str(date), 'first_instant': texts[0], 'log': logs[0]}}


# ================================================================================================ C24
def model_active(local_s, start_s, end_s, sd, ed):
    """reference: daily -> time of day in [start,end]; weekly -> position in week in the window(s)"""
    tod = local_s % 86400
    if sd < 0:
        return start_s <= tod <= end_s
    wday = (local_s // 86400 + 4) % 7          # 1970-01-01 was a Thursday
    pos = wday * 86400 + tod
    s = sd * 86400 + start_s
    e = ed * 86400 + end_s
    return (s <= pos <= e) if s <= e else (pos >= s or pos <= e)


DAY_NAMES = ['sunday', 'monday', 'tuesday', 'wednesday', 'thursday', 'friday', 'saturday']


def model_dow(s):
    """documented rule: a single digit 0-6; otherwise case-insensitively the unique first letter (m, w, f) or the first two letters
    (su, sa, tu, th); the rest of the string is ignored"""
    if not s: return -1
    l = s.lower()
    if len(l) == 1 and l in '0123456': return int(l)
    cands = [i for i, n in enumerate(DAY_NAMES) if n[0] == l[0]]
    if len(cands) == 1: return cands[0]
    if not cands or len(l) < 2: return -1
    for i in cands:
        if DAY_NAMES[i][1] == l[1]: return i
    return -1


class C24:
    id = 'C24'
    level = 'exploration'
    build = [('asan', 'fx')]
    workers = 8
    examples = 1600
    assumptions = ['the clock is virtual (clock_gettime interposed in the executor); Schedule::test is sampled every 60 s (quick: 3 weeks) with the state threaded '
                   'exactly as Session::activation_service does, and also statelessly as the login schedule test does',
                   'end time > start time (Configuration::create_schedule rejects anything else)']
    rule = ('Schedules: start/end time of day (end > start when loaded from configuration XML, any end time for directly constructed ones), utc offset -720..+840 min, daily or weekly with all 49 (start day, end day) pairs incl. equal and '
            'wrapping; built directly and through Configuration::create_login_schedule from generated XML attributes (end_day omitted => defaults). '
            'The virtual clock is stepped by 60 s over 3 weeks (+ a 1..59 s phase) from a generated origin. Oracle: daily active <=> start <= local time of day <= end; '
            'weekly active <=> local instant inside [start day@start, end day@end] week-cyclically, at every sampled instant, for the threaded state and for '
            'the stateless test. decode_dow: all strings of length 0..3 over printable ASCII (exhaustive, 866 496) vs the documented rule. '
            'Non-trivial schedule: weekly with start day == end day or wrapping, sampled across a window edge.')

    def __init__(self, tier):
        self.tier = tier
        if tier == 'thorough':
            self.examples = 20000
            self.workers = 16

    def pre_search(self, stats, seed):
        ex = Executor()
        try:
            alpha = [chr(c) for c in range(0x20, 0x7f)]
            n = 0
            def allstr():
                yield ''
                for L in (1, 2, 3):
                    for t in itertools.product(alpha, repeat=L):
                        yield ''.join(t)
            batch = []
            def flush():
                nonlocal n
                if not batch: return None
                res = ex.call('dow ' + ' '.join(fixref.hexs(s) for s in batch))
                for s, r in zip(batch, res):
                    n += 1
                    if r != model_dow(s):
                        return {'case': {'dow': s}, 'msg': 'C24: decode_dow(%r) = %d, documented rule gives %d' % (s, r, model_dow(s))}
                    if model_dow(s) >= 0 and len(s) > 1:
                        stats.nontrivial.add('dow:' + s)
                batch.clear()
                return None
            for s in allstr():
                if s == '':
                    # an empty token cannot travel over the line protocol as a word: "-" encodes it
                    pass
                batch.append(s)
                if len(batch) >= 5000:
                    f = flush()
                    if f: return f
            f = flush()
            if f: return f
            stats.evaluations += n
            stats.extra['decode_dow_strings'] = n
            stats.extra['decode_dow_exhaustive'] = True
            stats.samples.append({'decode_dow': 'all %d strings of length 0..3 over printable ASCII' % n})
        finally:
            ex.close()
        return None

    def strategy(self):
        def mk(start, length, off, weekly, sd, ed, origin, phase, viaxml, omit_end, free_end):
            end = min(86399, start + length)
            if end <= start:
                start, end = 0, max(1, length % 86399)
            if free_end is not None and not viaxml:
                # a Schedule object built directly may carry any end time, also one before the start time: a weekly window then runs
                # from the start day/time round the week to the end day/time (same day: all week except the gap), a daily one is empty.
                # (the configuration loader refuses end <= start, so this class exists only for directly constructed schedules)
                end = free_end
            return {'start': start, 'end': end, 'off': off, 'sd': sd if weekly else -1, 'ed': ed if weekly else -1,
                    'origin': origin * 60 + phase, 'xml': viaxml, 'omit_end': omit_end and weekly}
        return st.builds(mk, st.integers(0, 86398), st.integers(1, 86399), st.one_of(st.just(0), st.integers(-720, 840), st.sampled_from([-720, 840, 60, -300, 330])),
                         st.booleans(), st.integers(0, 6), st.integers(0, 6), st.integers(2880, 60 * 24 * 365 * 40), st.integers(0, 59), st.booleans(), st.booleans(),
                         st.one_of(st.none(), st.none(), st.integers(0, 86399)))

    def run(self, case, ex):
        if 'dow' in case:
            r = ex.call('dow ' + fixref.hexs(case['dow']))[0]
            if r != model_dow(case['dow']):
                raise Violation('C24: decode_dow(%r) = %d, documented rule gives %d' % (case['dow'], r, model_dow(case['dow'])))
            return {}
        step = 60
        n = 21 * 24 * 60 if self.tier == 'quick' else 28 * 24 * 60
        sd, ed = case['sd'], case['ed']
        if case['omit_end']:
            ed = sd
        if case['xml']:
            def hms(s): return '%02d:%02d:%02d' % (s // 3600, s // 60 % 60, s % 60)
            attrs = "start_time='%s' end_time='%s' utc_offset_mins='%d'" % (hms(case['start']), hms(case['end']), case['off'])
            if sd >= 0:
                name = DAY_NAMES[sd]
                attrs += " start_day='%s'" % random.Random(case['origin']).choice([name, name[:3], name[:2].upper(), str(sd)])
                if not case['omit_end']:
                    attrs += " end_day='%s'" % DAY_NAMES[ed][:3]
            ans = ex.call('schedxml %s %d %d %d' % (fixref.hexs(attrs), case['origin'], step, n))
            if 'x' in ans or ans.get('invalid'):
                raise Violation('C24: create_login_schedule rejected valid schedule attributes %r: %r' % (attrs, ans))
            if (ans['start_day'], ans['end_day'], ans['utc'], ans['start'], ans['end']) != (sd, ed, case['off'], case['start'] * 10 ** 9, case['end'] * 10 ** 9):
                raise Violation('C24: schedule built from %r has (start_day,end_day,utc,start,end) = %r, expected %r' % (
                    attrs, (ans['start_day'], ans['end_day'], ans['utc'], ans['start'], ans['end']), (sd, ed, case['off'], case['start'] * 10 ** 9, case['end'] * 10 ** 9)))
        else:
            ans = ex.call('sched %d %d %d %d %d %d %d %d' % (case['start'] * 10 ** 9, case['end'] * 10 ** 9, case['off'], sd, ed, case['origin'], step, n))
        crossed = False
        prev = None
        for i in range(n):
            t = case['origin'] + i * step
            want = model_active(t + case['off'] * 60, case['start'], case['end'], sd, ed)
            if prev is not None and want != prev: crossed = True
            prev = want
            for mode in ('threaded', 'stateless'):
                got = ans[mode][i] == '1'
                if got != want:
                    local = EPOCH + datetime.timedelta(seconds=t + case['off'] * 60)
                    raise Violation('C24: schedule start %s end %s utc_offset %d days %d..%d: at local %s (%s) %s test says %s, model says %s' % (
                        datetime.timedelta(seconds=case['start']), datetime.timedelta(seconds=case['end']), case['off'], sd, ed,
                        local.strftime('%a %Y-%m-%d %H:%M:%S'), 'step %d' % i, mode, 'active' if got else 'inactive', 'active' if want else 'inactive'))
        weekly_edge = sd >= 0 and (sd == ed or sd > ed) and crossed
        return {'nontrivial': weekly_edge, 'classes': ['weekly' if sd >= 0 else 'daily'] + (['equal_days'] if sd >= 0 and sd == ed else []) +
                (['wrapping'] if sd > ed >= 0 else []) + (['via_xml'] if case['xml'] else []) + (['end_before_start'] if case['end'] < case['start'] else []),
                'key': case, 'sample': dict(case)}


CHECKS = {'C08': C08, 'C09': C09, 'C24': C24}
