"""C32: XML configuration parser preserves element trees (Hypothesis tree round trip + path lookups) and is total on bytes (libFuzzer)."""
import random
import pbt, fixref, fuzzrun
from pbt import Violation, Executor
from hypothesis import strategies as st
from c_fuzz import FuzzCheck

NAME_FIRST = 'ABCDEFGHIJKLMNOPQRSTUVWXYZabcdefghijklmnopqrstuvwxyz_'
NAME_REST = NAME_FIRST + '0123456789.:-'
ENT = {'<': ['&lt;', '&#60;', '&#x3c;', '&#x3C;'], '>': ['&gt;', '&#62;', '&#x3e;'], '&': ['&amp;', '&#38;', '&#x26;'],
       '"': ['&quot;', '&#34;', '&#x22;'], "'": ['&apos;', '&#39;', '&#x27;']}

st_name = st.builds(lambda a, b: a + b, st.sampled_from(NAME_FIRST), st.text(alphabet=st.sampled_from(NAME_REST), max_size=6)).filter(
    lambda n: n not in ('xi:include', 'docpath'))
# value alphabet over-represents reference-looking material
TOKENS = ['&', '#', ';', 'x', 'lt', 'gt', 'amp', 'quot', 'apos', '&lt;', '&amp;', '&#65;', '&#x41;', '&amp;lt;', '<', '>', '"', "'", '0', '1', '9', 'a', 'Z', ' ',
          '=', '/', '!', '?', '-', '$', '{', '}', 'nbsp', '&nbsp;', '&copy;', '&#', '&#x', ';;', '&;']
st_value = st.lists(st.one_of(st.sampled_from(TOKENS), st.text(alphabet=st.characters(min_codepoint=0x20, max_codepoint=0x7e), max_size=4)),
                    max_size=6).map(''.join)


def st_tree(depth, width):
    """trees up to `depth` levels and `width` children per node (st.recursive keeps them small on average)"""
    leaf = st.fixed_dictionaries({'tag': st_name, 'attrs': st.dictionaries(st_name, st_value, max_size=4), 'text': st.one_of(st.none(), st_value), 'kids': st.just([])})

    def extend(children):
        return st.fixed_dictionaries({'tag': st_name, 'attrs': st.dictionaries(st_name, st_value, max_size=3),
                                      'text': st.one_of(st.none(), st.none(), st_value),
                                      'kids': st.lists(children, min_size=1, max_size=width)})

    def clip(node, d=1):
        if d >= depth:
            node['kids'] = []
        for k in node['kids']:
            clip(k, d + 1)
        return node
    return st.recursive(leaf, extend, max_leaves=30).map(clip)


def escape(s, rnd, quote=None, in_text=False):
    out = []
    for ch in s:
        must = ch in '<>&' or (quote is not None and ch == quote)
        may = ch in '"\''
        if must or (may and rnd.random() < 0.5):
            out.append(rnd.choice(ENT[ch]))
        else:
            out.append(ch)
    return ''.join(out)


def serialise(node, rnd, ext_safe=False):
    s = '<' + node['tag']
    for k in node['attrs']:
        q = rnd.choice('"\'')
        s += rnd.choice([' ', '  ', '\n']) + k + rnd.choice(['=', ' = ', '= ']) + q + escape(node['attrs'][k], rnd, q) + q
    text = node['text']
    has_text = text is not None and text.strip(' \t') != ''
    if not node['kids'] and not has_text and rnd.random() < 0.5:
        return s + rnd.choice(['/>', ' />'])
    s += '>'
    if has_text:
        s += escape(text, rnd, None, True)
    for k in node['kids']:
        s += rnd.choice(['', '', '\n', '\r\n']) + serialise(k, rnd)
    if node['kids'] and rnd.random() < 0.2:
        s += '<!-- a comment -->'
    s += rnd.choice(['', '\n']) if node['kids'] else ''
    return s + '</' + node['tag'] + rnd.choice(['>', ' >'])


def preorder(node, out=None, path=''):
    if out is None: out = []
    p = (path + '/' if path else '') + node['tag']
    idx = len(out) + 1
    out.append((idx, p, node))
    for k in node['kids']:
        preorder(k, out, p)
    return out


def model_find(root, path, attr=None, val=None):
    """reference walk: all elements whose tag chain from the root equals path; attribute filter on the final element"""
    comps = path.split('/')
    res = []
    order = preorder(root)
    for idx, p, node in order:
        if p == path and (attr is None or node['attrs'].get(attr) == val):
            res.append(idx)
    return res


class C32(object):
    id = 'C32'
    level = 'exploration'
    build = [('asan', 'fx'), ('fuzz', 'fuzz_xml')]
    workers = 16
    examples = 1600
    assumptions = ['documents are serialised without inter-element blanks (the parser keeps blanks as text by design; newlines are dropped by design and are inserted freely)',
                   'the noextensions flag is set (default mode expands ${ENV} and runs !{cmd} through popen); xi:include is never generated / is rejected by the fuzz target (it opens files)',
                   'attribute and text values are printable ASCII; < > & and the active quote are always written as references, " and \' sometimes',
                   'text is generated for leaf elements or before the first child only, as a single run containing a non-blank character']
    rule = ('(a) Hypothesis element trees up to depth 6 / width 6: tags and attribute names [A-Za-z_][A-Za-z0-9_.:-]*, unique attributes, values and text from a token '
            'alphabet over-representing & # ; x lt gt amp quot apos and digits; markup characters serialised as named, decimal or hex references chosen at random. '
            'Oracle: same tags, attribute maps with references decoded exactly once, same text, same child order (begin()/end()), and find(path[,attr,value]) '
            'returns exactly the elements a reference walk over the model returns for generated hit and near-miss paths. Non-trivial: a value containing a literal '
            '"&" followed by reference-looking text, or a find over >= 3 levels with an attribute filter. (b) libFuzzer on XmlElement::Factory, inputs <= 4 KiB: '
            'returns a tree or throws a std::exception; ASan/UBSan clean. distinct_nontrivial = distinct (a) cases + the largest per-job distinct count of (b).')
    runs = (150000, 12000000)
    jobs = (8, 16)

    def __init__(self, tier):
        self.tier = tier
        if tier == 'thorough':
            self.examples = 200000
            self.workers = 16

    def pre_search(self, stats, seed):
        class F(FuzzCheck):
            id = 'C32'; target = 'fuzz_xml'; max_len = 4096; runs = self.runs; jobs = self.jobs; timeout = 10
            @classmethod
            def seeds(cls):
                return [b"<?xml version='1.0' encoding='ISO-8859-1'?><fix8><session name='S1' role=\"initiator\" ip='127.0.0.1'/><log name='l'>t&amp;x</log><!-- c --></fix8>",
                        b"<a x='1'><b y=\"2\">t</b><c/><![CDATA[ x ]]></a>", b"<a><b><c d='&#65;&lt;'>&#x41;</c></b></a>"]
            @classmethod
            def dictionary(cls):
                return [b'<', b'>', b'</', b'/>', b'<!--', b'-->', b'<?', b'?>', b'&amp;', b'&#', b'&#x', b';', b"='", b'="', b'<![CDATA[', b']]>', b'&lt;']
        extra = {}
        path, rep = F.replay_dir(extra)
        if path is not None:
            return {'case': {'fuzz_hex': open(path, 'rb').read().hex()}, 'msg': rep, 'path': path}
        st_, fails = F.campaign(self.tier, seed)
        stats.evaluations += st_['execs']
        stats.extra['fuzz'] = {k: v for k, v in st_.items() if k != 'samples'}
        for s in st_['samples'][:1]:
            stats.samples.append({'fuzz_input_hex': s})
        stats.nontrivial.update('fuzzjob-%d' % i for i in range(st_['distinct_max_job']))
        if fails:
            data = min(fails, key=len)
            return {'case': {'fuzz_hex': data.hex()}, 'msg': fuzzrun.replay('fuzz_xml', data) or 'fuzz failure'}
        return None

    def strategy(self):
        return st.fixed_dictionaries({'tree': st_tree(6, 6), 'r': st.integers(0, 2 ** 32 - 1), 'decl': st.booleans()})

    def run(self, case, ex):
        if 'fuzz_hex' in case:
            rep = fuzzrun.replay('fuzz_xml', bytes.fromhex(case['fuzz_hex']))
            if rep is not None:
                raise Violation(rep)
            return {}
        root = case['tree']
        rnd = random.Random(case['r'])
        doc = ("<?xml version='1.0' encoding='ISO-8859-1'?>\n" if case['decl'] else '') + serialise(root, rnd)
        order = preorder(root)
        # paths: hits, near misses
        finds = []
        paths = sorted({p for _, p, _ in order})
        deep = custom_deep = False
        for _ in range(min(6, len(paths) + 2)):
            p = rnd.choice(paths)
            kind = rnd.choice(['hit', 'hit', 'attr', 'attrmiss', 'wrongtail', 'prefix', 'extra'])
            attr = val = None
            if kind in ('attr', 'attrmiss'):
                cands = [(n['attrs']) for _, pp, n in order if pp == p and n['attrs']]
                if cands:
                    a = rnd.choice(cands)
                    attr = rnd.choice(sorted(a))
                    val = a[attr] if kind == 'attr' else a[attr] + 'x'
                    if p.count('/') >= 2: deep = True
            elif kind == 'wrongtail': p = p + 'Q'
            elif kind == 'prefix' and len(p) > 1: p = p[:-1]
            elif kind == 'extra': p = p + '/' + rnd.choice(paths).split('/')[-1]
            if ' ' in p or not p: continue
            if attr is not None and (val == '' or ' ' in val or attr == ''):
                attr = val = None
            # the path delimiter is a parameter of find(): the default '/' or another character that occurs in no tag of the document
            delim = rnd.choice(['/', '/', '/', '|', '!', '~', '.', ':'])
            if any(delim in n['tag'] for _, _, n in order) or delim in p.replace('/', ''):
                delim = '|'
            if delim != '/' and p.count('/') >= 2: custom_deep = True
            finds.append((p, attr, val, delim))
        cmd = 'xmlparse 1 %s' % fixref.hexs(doc)
        for p, a, v, dl in finds:
            cmd += ' %s %s %s %d' % (fixref.hexs(p.replace('/', dl)), fixref.hexs(a) if a is not None else '-', fixref.hexs(v) if a is not None else '-', ord(dl))
        ans = ex.call(cmd)
        if 'x' in ans or ans.get('null'):
            raise Violation('C32: parser rejected a well-formed document: %r\n%s' % (ans.get('x'), doc))

        def cmp(model, got, where):
            tag = bytes.fromhex(got['tag']).decode('latin-1')
            if tag != model['tag']:
                raise Violation('C32: %s: tag %r, expected %r\n%s' % (where, tag, model['tag'], doc))
            gattrs = {bytes.fromhex(k).decode('latin-1'): bytes.fromhex(v).decode('latin-1') for k, v in got['attrs']}
            if gattrs != model['attrs']:
                diff = {k: (gattrs.get(k), model['attrs'].get(k)) for k in set(gattrs) | set(model['attrs']) if gattrs.get(k) != model['attrs'].get(k)}
                raise Violation('C32: %s: attributes differ (got, expected): %r\n%s' % (where, diff, doc))
            text = model['text'] if model['text'] is not None and model['text'].strip(' \t') != '' else None
            gtext = bytes.fromhex(got['val']).decode('latin-1') if 'val' in got else None
            if gtext != text:
                raise Violation('C32: %s: text %r, expected %r\n%s' % (where, gtext, text, doc))
            if len(got['kids']) != len(model['kids']):
                raise Violation('C32: %s: %d children, expected %d (%r vs %r)\n%s' % (where, len(got['kids']), len(model['kids']),
                                [bytes.fromhex(k['tag']).decode('latin-1') for k in got['kids']], [k['tag'] for k in model['kids']], doc))
            for i, (m, g) in enumerate(zip(model['kids'], got['kids'])):
                cmp(m, g, '%s/%s[%d]' % (where, m['tag'], i))
        cmp(root, ans['tree'], root['tag'])
        # map parser sequence numbers to pre-order indices (document order)
        seqs = []
        def collect(g):
            seqs.append(g['seq'])
            for k in g['kids']: collect(k)
        collect(ans['tree'])
        seq2idx = {s: i + 1 for i, s in enumerate(seqs)}
        for (p, a, v, dl), f in zip(finds, ans['finds']):
            want = model_find(root, p, a, v)
            if dl != '/': p = p.replace('/', dl) + ' [delimiter %r]' % dl
            got = sorted(seq2idx.get(s, -s) for s in f['set'])
            if got != want:
                raise Violation('C32: find(%r%s) returned elements %r (pre-order indices), reference walk gives %r\n%s' % (
                    p, ', %r=%r' % (a, v) if a else '', got, want, doc))
            first = seq2idx.get(f['first'], -1) if f['first'] >= 0 else None
            if (first is None) != (not want) or (want and first not in want):
                raise Violation('C32: find-first(%r%s) returned %r, reference walk gives %r\n%s' % (p, ', %r=%r' % (a, v) if a else '', first, want, doc))
        amp_ref = any('&' in s and any(t in s for t in ('lt;', 'gt;', 'amp;', 'quot;', 'apos;', '#')) for _, _, n in order
                      for s in list(n['attrs'].values()) + ([n['text']] if n['text'] else []))
        return {'nontrivial': amp_ref or deep, 'classes': ['amp_then_reference'] * amp_ref + ['deep_find_with_attr'] * deep + ['deep_find_custom_delimiter'] * custom_deep + ['nodes:%d' % min(len(order) // 5 * 5, 30)],
                'key': doc, 'sample': {'document': doc[:600]}}


CHECKS = {'C32': C32}
