#!/bin/sh
# Build everything the checks need, offline, from files on disk (sources under /repo, harness under /verif).
set -e
cd "$(dirname "$0")/build"
make -j16 -s FLAVOUR=plain f8c fxc
make -j16 -s FLAVOUR=asan fx
make -j16 -s FLAVOUR=tsan fx
echo "setup ok"
